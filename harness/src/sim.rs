//! simnet — a two-endpoint, many-connection simulator over the PUBLIC quinn-proto API with virtual
//! time, a seeded adversarial network and event-driven applications. It emits an integer trace
//! (one record per line) which Coq monitors (coq/Sys/*.v) validate. Record layouts: see TRACE.md.
use bytes::{Bytes, BytesMut};
use quinn_proto::{
    congestion, ClientConfig, Connection, ConnectionError, ConnectionHandle, ConnectionId,
    ConnectionIdGenerator, DatagramEvent, Dir, EcnCodepoint, Endpoint, EndpointConfig, Event,
    IdleTimeout, MtuDiscoveryConfig, ReadError, ReadableError, ServerConfig, Side, StreamEvent,
    StreamId, Transmit, TransportConfig, VarInt, WriteError,
};
use std::collections::{BTreeMap, HashMap};
use std::net::{IpAddr, Ipv4Addr, SocketAddr};
use std::sync::{Arc, Mutex};
use std::time::{Duration, Instant};

// ------------------------------------------------------------------------------------------
// parameters: flat key/value list
pub struct P(HashMap<i128, i128>);
impl P {
    pub fn from_ops(ops: &[Vec<i128>]) -> Self {
        let mut m = HashMap::new();
        for op in ops {
            let mut i = 0;
            while i + 1 < op.len() {
                m.insert(op[i], op[i + 1]);
                i += 2;
            }
        }
        P(m)
    }
    pub fn get(&self, k: i128, d: i128) -> i128 {
        *self.0.get(&k).unwrap_or(&d)
    }
}
pub mod k {
    pub const SEED: i128 = 1;
    pub const LOSS: i128 = 2; // per mille
    pub const DUP: i128 = 3;
    pub const DELAY_MIN: i128 = 4; // us
    pub const DELAY_MAX: i128 = 5;
    pub const CORRUPT: i128 = 6;
    pub const LINK_MTU: i128 = 7;
    pub const NCONNS: i128 = 8;
    pub const NBIDI: i128 = 9;
    pub const NUNI: i128 = 10;
    pub const STREAM_BYTES: i128 = 11;
    pub const WRITE_CHUNK: i128 = 12;
    pub const READ_MAX: i128 = 13;
    pub const READ_ORDERED: i128 = 14; // 1 ordered, 0 unordered
    pub const NDGRAM: i128 = 15;
    pub const DGRAM_SIZE: i128 = 16;
    pub const ECHO_BYTES: i128 = 17;
    pub const CLOSE_AT: i128 = 18; // us; 0 = when workload done
    pub const CLOSER: i128 = 19; // 0 client, 1 server, 2 both, 3 nobody
    pub const IDLE_MS: i128 = 20;
    pub const KEEPALIVE_MS: i128 = 21;
    pub const CONTROLLER: i128 = 22; // 0 cubic 1 newreno 2 bbr 3 fixed window
    pub const FIXED_WINDOW: i128 = 23;
    pub const SEND_WINDOW: i128 = 24;
    pub const STREAM_RWND: i128 = 25;
    pub const RWND: i128 = 26;
    pub const MAX_BIDI: i128 = 27;
    pub const MAX_UNI: i128 = 28;
    pub const INITIAL_MTU: i128 = 29;
    pub const MIN_MTU: i128 = 30;
    pub const MTUD_UPPER: i128 = 31; // 0 = disabled
    pub const GSO: i128 = 32;
    pub const RETRY: i128 = 33;
    pub const MIGRATE_AT: i128 = 34;
    pub const MIGRATE_KIND: i128 = 35; // 0 port only, 1 ip+port
    pub const MIGRATE2_AT: i128 = 36;
    pub const SILENCE_AFTER: i128 = 37; // after N datagrams delivered in total, one side goes silent; -1 never
    pub const SILENCE_SIDE: i128 = 38; // which endpoint disappears (0 client, 1 server)
    pub const KEYUPD_C: i128 = 39;
    pub const KEYUPD_S: i128 = 40;
    pub const LATE_US: i128 = 41;
    pub const SPURIOUS: i128 = 42; // per mille
    pub const SHIFT_US: i128 = 43;
    pub const ZERO_RTT: i128 = 44; // 0 none 1 accepted 2 rejected
    pub const DROP_MASK: i128 = 45; // bit i set: drop i-th datagram put on the wire
    pub const REPLAY: i128 = 46; // per mille: replay a stored datagram from the SAME source later
    pub const SPOOF: i128 = 47; // per mille: replay a stored datagram from an attacker address
    pub const GARBAGE: i128 = 48; // per mille: inject random / mutated datagrams
    pub const ACK_FREQ: i128 = 49;
    pub const DGRAM_RECV_BUF: i128 = 50;
    pub const DGRAM_SEND_BUF: i128 = 51;
    pub const MAX_TIME: i128 = 52; // us
    pub const SERVER_STREAMS: i128 = 53; // server opens this many uni streams too
    pub const PACING_BPS: i128 = 54;
    pub const DUP_MASK: i128 = 55; // bit i: duplicate i-th datagram
    pub const CID_LEN: i128 = 56;
    pub const CID_LIFETIME_MS: i128 = 57;
    pub const MIGRATION_ALLOWED: i128 = 58;
    pub const RESET_AT_BYTES: i128 = 59; // sender resets stream 0 after writing that many bytes (0 = never)
    pub const STOP_AT_BYTES: i128 = 60; // receiver stops stream 0 after reading that many bytes
    pub const EARLY_POLL: i128 = 61; // per mille: wake a connection before its deadline
    pub const DGRAM_DROP: i128 = 62; // datagram send(drop = true)
    pub const NEW_RWND_AT: i128 = 63; // server calls set_receive_window at that time
    pub const NEW_RWND: i128 = 64;
    pub const SERVER_RWND: i128 = 65; // server's receive_window for 2nd incarnation (0-RTT scenarios)
    pub const LINK_MTU_AT: i128 = 66; // time at which link mtu changes
    pub const LINK_MTU2: i128 = 67;
    pub const DROP_MASK_DIR: i128 = 68; // 0 both, 1 only client->server, 2 only server->client
    pub const FAIR_RUN: i128 = 69; // >0: at most this many consecutive random drops per direction
    pub const SERVER_EARLY: i128 = 71; // server application opens/writes its own streams before Connected (0.5-RTT data)
    pub const HOSTILE_AT: i128 = 72; // us: one endpoint's connection 0.. injects hostile authenticated frames once
    pub const HOSTILE_KIND: i128 = 73; // catalogue entry (see hostile_frames)
    pub const HOSTILE_SIDE: i128 = 74; // which endpoint misbehaves (0 client, 1 server)
    pub const READ_SERIAL: i128 = 75; // reader consumes one stream at a time (lowest id first), the others wait
    pub const PAD_TO_MTU: i128 = 76;
    pub const DGRAM_INTERVAL: i128 = 77; // us between application datagrams (0 = all at once)
    pub const DGRAM_ALT: i128 = 78; // odd-numbered datagrams are small (100 bytes)
    pub const EARLY_STOP: i128 = 79; // client stops the receive half of each bidi stream right after opening it
    pub const NO_REDO: i128 = 80; // after a 0-RTT rejection the client does not repeat its workload
    pub const HOSTILE_TP: i128 = 82; // >0: catalogue entry of hostile_tp::mutate applied to the peer's transport parameters as seen by the victim
    pub const HOSTILE_TP_SIDE: i128 = 83; // victim endpoint (0 client, 1 server); pair 0 (or the first real pair of a 0-RTT scenario) is attacked
    pub const CLIENT_IDLE_MS: i128 = 84; // >=0: the client's own max_idle_timeout (0 = none) instead of IDLE_MS
    pub const SERVER_IDLE2_MS: i128 = 85; // >=0: max_idle_timeout of the server's configuration from phase 2 of a 0-RTT scenario on (0 = none)
    pub const FORGET_AT: i128 = 86; // us: the server process restarts (fresh Endpoint, same reset key and server config): every connection state is lost
    pub const MIGRATE_SILENT: i128 = 87; // 1: the client is not told about its address change (NAT rebinding): no local_address_changed()
    pub const RETRY2: i128 = 88; // 1: an on-path attacker (a second server endpoint with another token key) answers the client's token-bearing Initial with its own, well-formed Retry, delivered before the real server's reply
    pub const BUSY_NEAR_US: i128 = 89; // >0: busy-polling driver - whenever a connection's next deadline is at most this far away every connection is driven every microsecond until then (drives that produce nothing leave no records)
    pub const CLOSE_ON_TIMER: i128 = 90; // 1 + timer index (Timer::VALUES order: 0 LossDetection 1 Idle 2 Close 3 KeyDiscard 4 PathValidation 5 KeepAlive 6 Pacing 7 PushNewCid 8 MaxAckDelay): the application (CLOSER side) calls close() in the very driver iteration in which that timer of its connection has expired - after handle_timeout, before the endpoint's answers are delivered
    pub const CLOSE_ON_TIMER_N: i128 = 91; // ... at its n-th expiry (default 1)
    pub const NEW_MAXSTREAMS_AT: i128 = 92; // us: the server calls set_max_concurrent_streams on every connection
    pub const NEW_MAX_BIDI: i128 = 93; // ... with these values (-1 = leave)
    pub const NEW_MAX_UNI: i128 = 94;
    pub const RESET_FORGE: i128 = 95; // 1: whenever the client puts a long-header datagram on the wire, the attacker sends it a short-header datagram addressed to that datagram's source CID and ending in the token of a stateless reset it has OBSERVED earlier (a token that belongs to some other, older connection ID); 2: forged reset with the token of a retired server CID after the client moved; 3: forged Retry / Version Negotiation packets with a CONNECTION_CLOSE-shaped payload to both endpoints from CLOSE_AT on
    pub const CLOSE_REASON_LEN: i128 = 96; // length of the reason phrase of the application close (default 3)
    pub const SPOOF_FRESH_AT: i128 = 97; // us: the first client datagram put on the wire at or after this instant reaches the server ONLY as a copy from the attacker's address (the original is lost): the server sees a fresh, highest-numbered packet from a foreign address once
    pub const SPOOF_FRESH_BLACKOUT: i128 = 98; // us: after that spoofed copy every client datagram is lost for this long
    pub const DGRAM_SIZE2: i128 = 100; // size of the 'small' datagrams of DGRAM_ALT (default 100)
    pub const PREFERRED_ADDR: i128 = 99; // 1: the server advertises a preferred address (its own), i.e. one more CID issued in the transport parameters
    pub const NEW_MAXSTREAMS_SIDE: i128 = 101; // 0: the CLIENT application calls set_max_concurrent_streams right after connect() (during the handshake / 0-RTT phase); 1 (default): the server at NEW_MAXSTREAMS_AT
    pub const DGRAM_START: i128 = 81; // us: application datagrams are not sent before this instant
    pub const RECONNECT: i128 = 70; // open this many further client connections, one per drained connection (slot reuse)
}

pub struct Rng(u64);
impl Rng {
    pub fn new(s: u64) -> Self {
        Rng(s)
    }
    pub fn next(&mut self) -> u64 {
        self.0 = self.0.wrapping_add(0x9E3779B97F4A7C15);
        let mut z = self.0;
        z = (z ^ (z >> 30)).wrapping_mul(0xBF58476D1CE4E5B9);
        z = (z ^ (z >> 27)).wrapping_mul(0x94D049BB133111EB);
        z ^ (z >> 31)
    }
    pub fn below(&mut self, n: u64) -> u64 {
        if n == 0 {
            0
        } else {
            self.next() % n
        }
    }
    pub fn chance(&mut self, permille: i128) -> bool {
        permille > 0 && (self.below(1000) as i128) < permille
    }
}

// ------------------------------------------------------------------------------------------
// deterministic CID generator (quinn's own generators use the thread RNG)
struct SeqCidGen {
    next: u64,
    len: usize,
    lifetime: Option<Duration>,
    tag: u8,
}
impl ConnectionIdGenerator for SeqCidGen {
    fn generate_cid(&mut self) -> ConnectionId {
        self.next += 1;
        let mut b = [0u8; 20];
        // big-endian counter in the trailing bytes (unique until it wraps), tag up front if room
        let n = self.next;
        let l = self.len;
        for i in 0..l.min(8) {
            b[l - 1 - i] = (n >> (8 * i)) as u8;
        }
        if l >= 5 {
            b[0] = self.tag;
        } else if l >= 1 {
            // short CIDs: fold the tag in so that the two endpoints differ
            b[0] ^= self.tag & 0x80;
        }
        ConnectionId::new(&b[..self.len])
    }
    fn cid_len(&self) -> usize {
        self.len
    }
    fn cid_lifetime(&self) -> Option<Duration> {
        self.lifetime
    }
}

// fixed-window congestion controller (observes nothing, reports a constant window)
#[derive(Debug, Clone)]
struct FixedCc {
    window: u64,
}
impl congestion::Controller for FixedCc {
    fn on_congestion_event(&mut self, _: Instant, _: Instant, _: bool, _: bool, _: u64) {}
    fn on_mtu_update(&mut self, _: u16) {}
    fn window(&self) -> u64 {
        self.window
    }
    fn clone_box(&self) -> Box<dyn congestion::Controller> {
        Box::new(self.clone())
    }
    fn initial_window(&self) -> u64 {
        self.window
    }
    fn into_any(self: Box<Self>) -> Box<dyn std::any::Any> {
        self
    }
}
#[derive(Debug)]
struct FixedCcFactory(u64);
impl congestion::ControllerFactory for FixedCcFactory {
    fn build(self: Arc<Self>, _: Instant, _: u16) -> Box<dyn congestion::Controller> {
        Box::new(FixedCc { window: self.0 })
    }
}

// mock system time for token lifetimes: follows virtual time
struct SimTime {
    base: std::time::SystemTime,
    now_us: Arc<Mutex<u64>>,
}
impl quinn_proto::TimeSource for SimTime {
    fn now(&self) -> std::time::SystemTime {
        self.base + Duration::from_micros(*self.now_us.lock().unwrap())
    }
}

pub fn pattern(sid: u64, off: u64, salt: u64) -> u8 {
    let x = off.wrapping_mul(31).wrapping_add(sid.wrapping_mul(17)).wrapping_add(salt) ^ (off >> 8);
    x as u8
}

// ------------------------------------------------------------------------------------------
struct OutStream {
    id: StreamId,
    total: u64,
    written: u64,
    finished: bool,
    reset: bool,
    stopped: bool,
    fin_acked: bool,
}
struct InStream {
    read: u64,
    done: bool,
    ranges: Vec<(u64, u64)>,
}

struct App {
    is_client: bool,
    salt: u64,
    started: bool,
    want_bidi: u64,
    want_uni: u64,
    stream_bytes: u64,
    echo_bytes: u64,
    out: Vec<OutStream>,
    inp: BTreeMap<u64, InStream>,
    dgrams_left: u64,
    dgram_next: u64,
    closed_local: bool,
    lost: bool,
    connected: bool,
    expect_in: u64,
    warmup: bool,
    early_started: bool,
    p_opened: bool,
    p_avail: bool,
    p_dgram_rx: bool,
    p_dgram_unblocked: bool,
    p_readable: Vec<StreamId>,
    p_writable: Vec<StreamId>,
    next_read_at: u64,
    next_dgram_at: u64,
    dgram_wake_set: bool,
    pending_stops: Vec<(u64, StreamId)>,
    hold_close_until: u64,
    force_close: bool,
    timer_hits: i128,
}

struct ConnSt {
    conn: Connection,
    app: App,
    wake_at: Option<u64>, // virtual us at which timeout will be serviced
    last_deadline: Option<Instant>,
    drained: bool,
    conn_index: usize,
}

struct Pkt {
    at: u64,
    seq: u64,
    src: SocketAddr,
    dst: SocketAddr,
    ecn: Option<EcnCodepoint>,
    data: Vec<u8>,
    origin: i128, // conn_index of the producing connection, -1 endpoint-generated, -2 attacker
    kind: i128,   // 0 genuine, 2 duplicate, 3 corrupted, 5 replay, 6 spoofed replay, 7 garbage
}

struct Ep {
    ep: Endpoint,
    addr: SocketAddr,
    conns: BTreeMap<usize, ConnSt>,
    zombies: Vec<ConnSt>,
    silent: bool,
}

pub struct World {
    p: P,
    rng: Rng,
    drv: Rng,
    base: Instant,
    now: u64,
    eps: Vec<Ep>,
    net: Vec<Pkt>,
    seq: u64,
    wire_count: u64,
    delivered: u64,
    pub trace: Vec<Vec<i128>>,
    addrs: Vec<SocketAddr>,
    stored: Vec<(SocketAddr, SocketAddr, Vec<u8>, i128)>,
    client_cfg: Option<ClientConfig>,
    server_cfg: Option<Arc<ServerConfig>>,
    now_shared: Arc<Mutex<u64>>,
    link_mtu: usize,
    conn_counter: usize,
    steps: u64,
    accepted_pairs: Vec<usize>,
    drop_run: [i128; 2],
    injected: u64,
    app_wakes: Vec<u64>,
    tp: Option<Arc<crate::hostile_tp::TpShared>>,
    restart_cfg: Option<Arc<EndpointConfig>>,
    att_ep: Option<Endpoint>,
    retry2_done: bool,
    quiet: bool,
    seen_server_cids: Vec<Vec<u8>>,
    spoof_fresh_done: bool,
    spoof_fresh_t: u64,
    first_server_cid: Option<Vec<u8>>,
    first_client_cid: Option<Vec<u8>>,
    forge3_cid: [Option<Vec<u8>>; 2],
    forge2_done: bool,
}

/// long-header Initial (QUIC v1) whose token is not empty
fn initial_has_token(d: &[u8]) -> bool {
    if d.len() < 7 || d[0] & 0xF0 != 0xC0 {
        return false;
    }
    let mut p = 5;
    let dl = d[p] as usize;
    p += 1 + dl;
    if p >= d.len() {
        return false;
    }
    let sl = d[p] as usize;
    p += 1 + sl;
    if p >= d.len() {
        return false;
    }
    // token length varint: non-zero
    d[p] != 0
}

fn ecn_code(e: Option<EcnCodepoint>) -> i128 {
    match e {
        None => 0,
        Some(EcnCodepoint::Ect0) => 2,
        Some(EcnCodepoint::Ect1) => 1,
        Some(EcnCodepoint::Ce) => 3,
    }
}

fn load_cert() -> (Vec<u8>, Vec<u8>) {
    let dir = std::env::var("QVH_CERTS").unwrap_or_else(|_| {
        let exe = std::env::current_exe().unwrap();
        // <verif>/.cache/target-x/debug/qvh -> <verif>/harness/certs
        let mut p = exe.clone();
        for _ in 0..4 {
            p.pop();
        }
        p.push("harness");
        p.push("certs");
        p.to_string_lossy().to_string()
    });
    (
        std::fs::read(format!("{}/cert.der", dir)).expect("cert.der"),
        std::fs::read(format!("{}/key.der", dir)).expect("key.der"),
    )
}

impl World {
    fn inst(&self, t: u64) -> Instant {
        self.base + Duration::from_micros(t + self.p.get(k::SHIFT_US, 0) as u64)
    }
    fn rel(&self, t: Option<Instant>) -> i128 {
        match t {
            None => -1,
            Some(t) => {
                let b = self.base + Duration::from_micros(self.p.get(k::SHIFT_US, 0) as u64);
                if t >= b {
                    // round up: a deadline must never be serviced before it is due
                    ((t.duration_since(b).as_nanos() + 999) / 1000) as i128
                } else {
                    -2
                }
            }
        }
    }
    fn addr_id(&mut self, a: SocketAddr) -> i128 {
        if let Some(i) = self.addrs.iter().position(|x| *x == a) {
            return i as i128;
        }
        self.addrs.push(a);
        (self.addrs.len() - 1) as i128
    }

    fn transport(&self, server: bool) -> TransportConfig {
        let p = &self.p;
        let mut t = TransportConfig::default();
        let mut idle = p.get(k::IDLE_MS, 10_000);
        if !server && p.get(k::CLIENT_IDLE_MS, -1) >= 0 {
            idle = p.get(k::CLIENT_IDLE_MS, -1);
        }
        if idle == 0 {
            t.max_idle_timeout(None);
        } else {
            t.max_idle_timeout(Some(IdleTimeout::try_from(Duration::from_millis(idle as u64)).unwrap()));
        }
        let ka = p.get(k::KEEPALIVE_MS, 0);
        if ka > 0 && !server {
            t.keep_alive_interval(Some(Duration::from_millis(ka as u64)));
        }
        match p.get(k::CONTROLLER, 0) {
            1 => {
                t.congestion_controller_factory(Arc::new(congestion::NewRenoConfig::default()));
            }
            2 => {
                t.congestion_controller_factory(Arc::new(congestion::BbrConfig::default()));
            }
            3 => {
                t.congestion_controller_factory(Arc::new(FixedCcFactory(p.get(k::FIXED_WINDOW, 12000) as u64)));
            }
            _ => {}
        }
        if p.get(k::SEND_WINDOW, 0) > 0 {
            t.send_window(p.get(k::SEND_WINDOW, 0) as u64);
        }
        if p.get(k::STREAM_RWND, 0) > 0 {
            t.stream_receive_window(VarInt::from_u64(p.get(k::STREAM_RWND, 0) as u64).unwrap());
        }
        if p.get(k::RWND, 0) > 0 {
            t.receive_window(VarInt::from_u64(p.get(k::RWND, 0) as u64).unwrap());
        }
        t.max_concurrent_bidi_streams(VarInt::from_u64(p.get(k::MAX_BIDI, 100) as u64).unwrap());
        t.max_concurrent_uni_streams(VarInt::from_u64(p.get(k::MAX_UNI, 100) as u64).unwrap());
        let imtu = p.get(k::INITIAL_MTU, 1200) as u16;
        let mmtu = p.get(k::MIN_MTU, 1200) as u16;
        t.initial_mtu(imtu.max(1200));
        t.min_mtu(mmtu.max(1200));
        let up = p.get(k::MTUD_UPPER, 0);
        if up == 0 {
            t.mtu_discovery_config(None);
        } else {
            let mut m = MtuDiscoveryConfig::default();
            m.upper_bound(up as u16);
            t.mtu_discovery_config(Some(m));
        }
        if p.get(k::GSO, 1) <= 1 {
            t.enable_segmentation_offload(false);
        }
        if p.get(k::ACK_FREQ, 0) > 0 {
            let mut a = quinn_proto::AckFrequencyConfig::default();
            a.ack_eliciting_threshold(VarInt::from_u32(p.get(k::ACK_FREQ, 0) as u32));
            t.ack_frequency_config(Some(a));
        }
        let drb = p.get(k::DGRAM_RECV_BUF, 65536);
        t.datagram_receive_buffer_size(if drb < 0 { None } else { Some(drb as usize) });
        t.datagram_send_buffer_size(p.get(k::DGRAM_SEND_BUF, 65536) as usize);
        if p.get(k::PAD_TO_MTU, 0) > 0 {
            t.pad_to_mtu(true);
        }
        if p.get(k::PACING_BPS, 0) > 0 {
            t.max_outgoing_bytes_per_second(Some(p.get(k::PACING_BPS, 0) as u64));
        }
        t
    }

    pub fn new(p: P) -> Self {
        let seed = p.get(k::SEED, 1) as u64;
        let base = Instant::now();
        let now_shared = Arc::new(Mutex::new(0u64));
        let mut w = World {
            rng: Rng::new(seed),
            drv: Rng::new(seed ^ 0x5DEECE66D),
            base,
            now: 0,
            eps: Vec::new(),
            net: Vec::new(),
            seq: 0,
            wire_count: 0,
            delivered: 0,
            trace: Vec::new(),
            addrs: Vec::new(),
            stored: Vec::new(),
            client_cfg: None,
            server_cfg: None,
            now_shared,
            link_mtu: p.get(k::LINK_MTU, 1500) as usize,
            conn_counter: 0,
            steps: 0,
            accepted_pairs: Vec::new(),
            drop_run: [0, 0],
            injected: 0,
            app_wakes: Vec::new(),
            tp: None,
            restart_cfg: None,
            att_ep: None,
            retry2_done: false,
            quiet: false,
            seen_server_cids: Vec::new(),
            spoof_fresh_done: false,
            spoof_fresh_t: 0,
            first_server_cid: None,
            first_client_cid: None,
            forge3_cid: [None, None],
            forge2_done: false,
            p,
        };
        let (cert, key) = load_cert();
        let certd = quinn_proto::rustls::pki_types::CertificateDer::from(cert.clone());
        let keyd = quinn_proto::rustls::pki_types::PrivateKeyDer::Pkcs8(key.clone().into());
        let mut scfg = ServerConfig::with_single_cert(vec![certd.clone()], keyd).unwrap();
        scfg.transport_config(Arc::new(w.transport(true)));
        scfg.migration(w.p.get(k::MIGRATION_ALLOWED, 1) != 0);
        if w.p.get(k::PREFERRED_ADDR, 0) == 1 {
            scfg.preferred_address_v4(Some(std::net::SocketAddrV4::new(Ipv4Addr::new(10, 0, 0, 2), 4433)));
        }
        scfg.time_source(Arc::new(SimTime {
            base: std::time::UNIX_EPOCH + Duration::from_secs(1_700_000_000),
            now_us: w.now_shared.clone(),
        }));
        let tk = quinn_proto_token_key(seed);
        scfg.token_key(tk);
        let tp_kind = w.p.get(k::HOSTILE_TP, 0);
        if tp_kind > 0 {
            let victim = w.p.get(k::HOSTILE_TP_SIDE, 0).clamp(0, 1);
            let target = if w.p.get(k::ZERO_RTT, 0) > 0 { 1 } else { 0 };
            let sh = Arc::new(crate::hostile_tp::TpShared {
                kind: tp_kind,
                seed,
                target_idx: target,
                cur_idx: std::sync::atomic::AtomicI64::new(-1),
                epoch: std::sync::atomic::AtomicI64::new(0),
                log: Mutex::new(Vec::new()),
            });
            scfg.crypto = Arc::new(crate::hostile_tp::HServer { inner: scfg.crypto.clone(), m: sh.clone(), attack: victim == 1 });
            w.tp = Some(sh);
        }
        let scfg = Arc::new(scfg);
        let mut roots = quinn_proto::rustls::RootCertStore::empty();
        roots.add(certd).unwrap();
        let mut ccfg = if let Some(sh) = &w.tp {
            use quinn_proto::rustls;
            let mut rc = rustls::ClientConfig::builder_with_provider(Arc::new(rustls::crypto::ring::default_provider()))
                .with_protocol_versions(&[&rustls::version::TLS13])
                .unwrap()
                .with_root_certificates(roots)
                .with_no_client_auth();
            rc.enable_early_data = true;
            let q = quinn_proto::crypto::rustls::QuicClientConfig::try_from(rc).unwrap();
            let victim = w.p.get(k::HOSTILE_TP_SIDE, 0).clamp(0, 1);
            ClientConfig::new(Arc::new(crate::hostile_tp::HClient { inner: Arc::new(q), m: sh.clone(), attack: victim == 0 }))
        } else {
            ClientConfig::with_root_certificates(Arc::new(roots)).unwrap()
        };
        ccfg.transport_config(Arc::new(w.transport(false)));
        w.client_cfg = Some(ccfg);
        w.server_cfg = Some(scfg.clone());

        let cid_len = w.p.get(k::CID_LEN, 8) as usize;
        let life = w.p.get(k::CID_LIFETIME_MS, 0);
        let mk_ep_cfg = |tag: u8, seed: u64| {
            let mut rk = [0u8; 64];
            for (i, b) in rk.iter_mut().enumerate() {
                *b = (seed as u8).wrapping_add(i as u8).wrapping_mul(37) ^ tag;
            }
            let key = quinn_proto_reset_key(&rk);
            let mut c = EndpointConfig::new(key);
            let mut s = [0u8; 32];
            for (i, b) in s.iter_mut().enumerate() {
                *b = (seed >> (i % 8)) as u8 ^ tag ^ (i as u8);
            }
            c.rng_seed(Some(s));
            let lt = if life > 0 { Some(Duration::from_millis(life as u64)) } else { None };
            c.cid_generator(Arc::new(move || Box::new(SeqCidGen { next: 0, len: cid_len, lifetime: lt, tag }) as Box<dyn ConnectionIdGenerator>));
            Arc::new(c)
        };
        // configuration of the server after a restart: same reset key (same seed and tag for the
        // key bytes), another CID generator tag so that new CIDs do not collide with forgotten ones
        w.restart_cfg = Some({
            let c = mk_ep_cfg(0x5E, seed ^ 0xABCD);
            let mut c2 = (*c).clone();
            let lt = if life > 0 { Some(Duration::from_millis(life as u64)) } else { None };
            c2.cid_generator(Arc::new(move || Box::new(SeqCidGen { next: 0, len: cid_len, lifetime: lt, tag: 0x7E }) as Box<dyn ConnectionIdGenerator>));
            Arc::new(c2)
        });
        if w.p.get(k::RETRY2, 0) == 1 {
            let (cert, key) = load_cert();
            let certd = quinn_proto::rustls::pki_types::CertificateDer::from(cert);
            let keyd = quinn_proto::rustls::pki_types::PrivateKeyDer::Pkcs8(key.into());
            let mut acfg = ServerConfig::with_single_cert(vec![certd], keyd).unwrap();
            acfg.token_key(quinn_proto_token_key(seed ^ 0xDEAD_BEEF));
            w.att_ep = Some(Endpoint::new(mk_ep_cfg(0xA7, seed ^ 0x7777), Some(Arc::new(acfg)), true));
        }
        let caddr = SocketAddr::new(IpAddr::V4(Ipv4Addr::new(10, 0, 0, 1)), 40000);
        let saddr = SocketAddr::new(IpAddr::V4(Ipv4Addr::new(10, 0, 0, 2)), 4433);
        let allow_mtud = true;
        let cep = Endpoint::new(mk_ep_cfg(0xC1, seed), None, allow_mtud);
        let sep = Endpoint::new(mk_ep_cfg(0x5E, seed ^ 0xABCD), Some(scfg), allow_mtud);
        w.eps.push(Ep { ep: cep, addr: caddr, conns: BTreeMap::new(), zombies: Vec::new(), silent: false });
        w.eps.push(Ep { ep: sep, addr: saddr, conns: BTreeMap::new(), zombies: Vec::new(), silent: false });
        w.addr_id(caddr);
        w.addr_id(saddr);
        w
    }

    fn apply_idle2(p: &P, t: &mut TransportConfig) {
        let v = p.get(k::SERVER_IDLE2_MS, -1);
        if v == 0 {
            t.max_idle_timeout(None);
        } else if v > 0 {
            t.max_idle_timeout(Some(IdleTimeout::try_from(Duration::from_millis(v as u64)).unwrap()));
        }
    }

    fn new_app(&self, is_client: bool, idx: usize) -> App {
        let p = &self.p;
        App {
            is_client,
            salt: (p.get(k::SEED, 1) as u64).wrapping_mul(7) + idx as u64 * 1000 + if is_client { 0 } else { 500 },
            started: false,
            want_bidi: if is_client { p.get(k::NBIDI, 1) as u64 } else { 0 },
            want_uni: if is_client { p.get(k::NUNI, 0) as u64 } else { p.get(k::SERVER_STREAMS, 0) as u64 },
            stream_bytes: p.get(k::STREAM_BYTES, 5000) as u64,
            echo_bytes: p.get(k::ECHO_BYTES, 0) as u64,
            out: Vec::new(),
            inp: BTreeMap::new(),
            dgrams_left: p.get(k::NDGRAM, 0) as u64,
            dgram_next: 0,
            closed_local: false,
            lost: false,
            connected: false,
            expect_in: 0,
            warmup: false,
            early_started: false,
            p_opened: false,
            p_avail: false,
            p_dgram_rx: false,
            p_dgram_unblocked: false,
            p_readable: Vec::new(),
            p_writable: Vec::new(),
            next_read_at: 0,
            next_dgram_at: 0,
            dgram_wake_set: false,
            pending_stops: Vec::new(),
            hold_close_until: 0,
            force_close: false,
            timer_hits: 0,
        }
    }

    fn connect_client(&mut self, warmup: bool) {
        let mut cfg = self.client_cfg.clone().unwrap();
        let now = self.inst(self.now);
        let saddr = self.eps[1].addr;
        let idx = self.conn_counter;
        self.conn_counter += 1;
        // the pair identity travels in the client-chosen initial DCID
        let seedb = self.p.get(k::SEED, 1) as u8;
        cfg.initial_dst_cid_provider(Arc::new(move || ConnectionId::new(&[0xD0, idx as u8, seedb, 2, 3, 4, 5, 6])));
        if let Some(sh) = &self.tp {
            sh.cur_idx.store(idx as i64, std::sync::atomic::Ordering::SeqCst);
        }
        let (ch, mut conn) = self.eps[0].ep.connect(now, cfg, saddr, "localhost").unwrap();
        if !warmup && self.p.get(k::NEW_MAXSTREAMS_SIDE, 1) == 0 {
            let nb = self.p.get(k::NEW_MAX_BIDI, -1);
            let nu = self.p.get(k::NEW_MAX_UNI, -1);
            if nb >= 0 {
                conn.set_max_concurrent_streams(Dir::Bi, VarInt::from_u64(nb as u64).unwrap());
            }
            if nu >= 0 {
                conn.set_max_concurrent_streams(Dir::Uni, VarInt::from_u64(nu as u64).unwrap());
            }
            self.trace.push(vec![13, self.now as i128, 13, nb, nu]);
        }
        if let Some(sh) = &self.tp {
            // outcomes logged inside connect concern the parameters remembered with the session
            // ticket (0-RTT): informational WORLD record 10, not an expectation
            let l: Vec<_> = sh.log.lock().unwrap().drain(..).collect();
            for (side, i, kind, ok) in l {
                self.trace.push(vec![13, self.now as i128, 10, side, i, kind, ok]);
            }
            sh.epoch.fetch_add(1, std::sync::atomic::Ordering::SeqCst);
        }
        let mut app = self.new_app(true, idx);
        if warmup {
            app.warmup = true;
            app.want_bidi = 0;
            app.want_uni = 0;
            app.dgrams_left = 0;
            self.trace.push(vec![13, self.now as i128, 5, idx as i128]);
        }
        self.eps[0].conns.insert(ch.0, ConnSt { conn, app, wake_at: None, last_deadline: None, drained: false, conn_index: idx });
        let t = self.now as i128;
        self.trace.push(vec![3, t, 0, idx as i128, 20, ch.0 as i128]);
    }

    // -------------------------------------------------------------------------------------
    fn put_on_wire(&mut self, src_ep: usize, tr: &Transmit, buf: &[u8], origin: i128) {
        let seg = tr.segment_size.unwrap_or(tr.size.max(1));
        let mut off = 0;
        let src = self.eps[src_ep].addr;
        while off < tr.size {
            let end = (off + seg).min(tr.size);
            let data = buf[off..end].to_vec();
            off = end;
            self.wire(src, tr.destination, tr.ecn, data, src_ep, origin);
        }
    }

    fn wire(&mut self, src: SocketAddr, dst: SocketAddr, ecn: Option<EcnCodepoint>, data: Vec<u8>, src_ep: usize, origin: i128) {
        let idx = self.wire_count;
        self.wire_count += 1;
        let t = self.now as i128;
        let sid = self.addr_id(src);
        let did = self.addr_id(dst);
        let size = data.len() as i128;
        let p = &self.p;
        let dmin = p.get(k::DELAY_MIN, 10_000) as u64;
        let dmax = p.get(k::DELAY_MAX, 10_000).max(dmin as i128) as u64;
        let mask_dir = p.get(k::DROP_MASK_DIR, 0);
        let mask_applies = mask_dir == 0 || (mask_dir == 1 && src_ep == 0) || (mask_dir == 2 && src_ep == 1);
        let masked = idx < 60 && mask_applies && (p.get(k::DROP_MASK, 0) >> idx) & 1 == 1;
        let dupmask = idx < 60 && (p.get(k::DUP_MASK, 0) >> idx) & 1 == 1;
        let loss = p.get(k::LOSS, 0);
        let dup = p.get(k::DUP, 0);
        let corrupt = p.get(k::CORRUPT, 0);
        let replay = p.get(k::REPLAY, 0);
        let spoof = p.get(k::SPOOF, 0);
        if data.len() > self.link_mtu {
            self.trace.push(vec![9, t, idx as i128, 4, sid, did, size]);
            return;
        }
        let garbage = p.get(k::GARBAGE, 0);
        if self.rng.chance((replay + spoof + garbage).min(500)) && self.stored.len() < 64 {
            self.stored.push((src, dst, data.clone(), origin));
        }
        if src_ep == 0 && !self.retry2_done && self.att_ep.is_some() && initial_has_token(&data) {
            // the attacker sees the client's second Initial (it carries the Retry token) and answers
            // with a Retry of its own: correct integrity tag, spoofed from the server's address,
            // faster than the real server
            self.retry2_done = true;
            let now_i = self.inst(self.now);
            let mut buf = Vec::new();
            let att = self.att_ep.as_mut().unwrap();
            if let Some(DatagramEvent::NewConnection(incoming)) = att.handle(now_i, src, None, None, BytesMut::from(&data[..]), &mut buf) {
                if incoming.may_retry() {
                    if let Ok(tr) = att.retry(incoming, &mut buf) {
                        let d = buf[..tr.size].to_vec();
                        self.seq += 1;
                        let sz = d.len() as i128;
                        self.net.push(Pkt { at: self.now + dmin / 2 + 1, seq: self.seq, src: dst, dst: src, ecn: None, data: d, origin: -2, kind: 7 });
                        self.trace.push(vec![9, t, idx as i128, 7, did, sid, sz]);
                        self.trace.push(vec![13, t, 12, sz]);
                    }
                }
            }
        }
        if self.p.get(k::RESET_FORGE, 0) == 2 && src_ep == 1 && !data.is_empty() && data[0] & 0x80 == 0 {
            // the CID the server currently addresses the client with (short header)
            let cl = self.p.get(k::CID_LEN, 8).max(0) as usize;
            if cl > 0 && data.len() > 1 + cl {
                self.first_client_cid = Some(data[1..1 + cl].to_vec());
            }
        }
        if self.p.get(k::RESET_FORGE, 0) == 2 && data.len() > 7 && data[0] & 0x80 != 0 {
            let dl = data[5] as usize;
            if 6 + dl < data.len() {
                let sl = data[6 + dl] as usize;
                if 7 + dl + sl <= data.len() && sl > 0 {
                    let scid = data[7 + dl..7 + dl + sl].to_vec();
                    if src_ep == 1 && self.first_server_cid.is_none() {
                        self.first_server_cid = Some(scid);
                    } else if src_ep == 0 && self.first_client_cid.is_none() {
                        self.first_client_cid = Some(scid);
                    }
                }
            }
        }
        if self.p.get(k::RESET_FORGE, 0) == 3 && src_ep < 2 {
            // 3: from CLOSE_AT on, every datagram on the wire makes the attacker send both endpoints a
            // Retry and a Version Negotiation packet - neither is protected by any key - addressed to
            // the connection ID the endpoint announced in its long-header packets, with a payload that
            // reads as a CONNECTION_CLOSE frame, spoofed from the peer's address
            if data.len() > 7 && data[0] & 0x80 != 0 {
                let dl = data[5] as usize;
                if 6 + dl < data.len() {
                    let sl = data[6 + dl] as usize;
                    if 7 + dl + sl <= data.len() {
                        self.forge3_cid[src_ep] = Some(data[7 + dl..7 + dl + sl].to_vec());
                    }
                }
            }
            let close_at = self.p.get(k::CLOSE_AT, 0);
            if close_at > 0 && self.now as i128 >= close_at && self.injected < 400 {
                for target in 0..2usize {
                    let Some(cid) = self.forge3_cid[target].clone() else { continue };
                    let (fsrc, fdst) = if target == src_ep { (dst, src) } else { (src, dst) };
                    let mut retry = vec![0xf1u8, 0, 0, 0, 1, cid.len() as u8];
                    retry.extend_from_slice(&cid);
                    retry.push(8);
                    retry.extend_from_slice(&[0xEE; 8]);
                    retry.extend_from_slice(&[0x1c, 0, 0, 0]);
                    retry.extend_from_slice(&[0; 20]);
                    retry.extend_from_slice(&[0x5A; 16]);
                    let mut vn = vec![0x80u8 | 0x2a, 0, 0, 0, 0, cid.len() as u8];
                    vn.extend_from_slice(&cid);
                    vn.push(8);
                    vn.extend_from_slice(&[0xEE; 8]);
                    vn.extend_from_slice(&[0x1c, 0, 0, 0, 0x0a, 0x1a, 0x2a, 0x3a]);
                    for f in [retry, vn] {
                        self.seq += 1;
                        self.injected += 1;
                        let fs = self.addr_id(fsrc);
                        let fd = self.addr_id(fdst);
                        self.trace.push(vec![9, t, -1, 7, fs, fd, f.len() as i128]);
                        self.net.push(Pkt { at: self.now + 1 + self.rng.below(2000), seq: self.seq, src: fsrc, dst: fdst, ecn: None, data: f, origin: -2, kind: 7 });
                    }
                }
            }
        }
        // only connection IDs of the warm-up phase (their connections are gone when phase 2 starts)
        if self.p.get(k::RESET_FORGE, 0) == 1 && src_ep == 1 && self.now < 900_000 && data.len() > 7 && data[0] & 0x80 != 0 {
            let dl = data[5] as usize;
            if 6 + dl < data.len() {
                let sl = data[6 + dl] as usize;
                if 7 + dl + sl <= data.len() && sl > 0 {
                    let scid = data[7 + dl..7 + dl + sl].to_vec();
                    if !self.seen_server_cids.contains(&scid) {
                        self.seen_server_cids.push(scid);
                    }
                }
            }
        }
        if self.p.get(k::RESET_FORGE, 0) == 1 && src_ep == 0 && self.now >= 1_000_000 && data.len() > 7 && data[0] & 0x80 != 0 && self.injected < 400 {
            let dl = data[5] as usize;
            if 6 + dl < data.len() {
                let sl = data[6 + dl] as usize;
                if 7 + dl + sl <= data.len() && sl > 0 {
                    let scid = data[7 + dl..7 + dl + sl].to_vec();
                    let mut toks: Vec<Vec<u8>> = Vec::new();
                    // tokens of connection IDs the server used on earlier connections (an attacker learns
                    // them by provoking stateless resets once those connections are gone): computed here
                    // with the server's reset key
                    {
                        let seed = self.p.get(k::SEED, 1) as u64 ^ 0xABCD;
                        let mut rk = [0u8; 64];
                        for (i, b) in rk.iter_mut().enumerate() {
                            *b = (seed as u8).wrapping_add(i as u8).wrapping_mul(37) ^ 0x5E;
                        }
                        let key = ring_hmac(&rk);
                        for cid in self.seen_server_cids.iter().rev().take(6) {
                            let mut sig = [0u8; 32];
                            quinn_proto::crypto::HmacKey::sign(&key, cid, &mut sig);
                            toks.push(sig[..16].to_vec());
                        }
                    }
                    for e in self.stored.iter().rev() {
                        if e.3 == -1 && e.2.len() >= 21 && e.2[0] & 0x80 == 0 {
                            let t16 = e.2[e.2.len() - 16..].to_vec();
                            if !toks.contains(&t16) && toks.len() < 12 {
                                toks.push(t16);
                            }
                        }
                    }
                    for tok in toks {
                        // Initial-shaped (the client has Initial keys from the start; short-header
                        // packets are dropped before any reset check while 1-RTT keys are missing):
                        // header protection / AEAD fail, what remains is the trailing token
                        let mut f = vec![0xc0 | (self.rng.below(4) as u8), 0, 0, 0, 1, scid.len() as u8];
                        f.extend_from_slice(&scid);
                        f.push(0); // no source CID
                        f.push(0); // no token
                        f.extend_from_slice(&[0x40, 64]); // length: 64 bytes follow
                        for _ in 0..48 {
                            f.push(self.rng.below(256) as u8);
                        }
                        f.extend_from_slice(&tok);
                        self.seq += 1;
                        self.injected += 1;
                        let sz = f.len() as i128;
                        self.net.push(Pkt { at: self.now + 1000, seq: self.seq, src: dst, dst: src, ecn: None, data: f, origin: -2, kind: 7 });
                        self.trace.push(vec![9, t, -1, 7, did, sid, sz]);
                    }
                }
            }
        }
        let sfa = self.p.get(k::SPOOF_FRESH_AT, 0);
        if self.spoof_fresh_done && src_ep == 0 && self.now < self.spoof_fresh_t + self.p.get(k::SPOOF_FRESH_BLACKOUT, 0).max(0) as u64 {
            self.trace.push(vec![9, t, idx as i128, 1, sid, did, size]);
            return;
        }
        if sfa > 0 && !self.spoof_fresh_done && src_ep == 0 && self.now as i128 >= sfa {
            self.spoof_fresh_done = true;
            self.spoof_fresh_t = self.now;
            let asrc = SocketAddr::new(IpAddr::V4(Ipv4Addr::new(10, 6, 6, 6)), 6666);
            let aid = self.addr_id(asrc);
            self.seq += 1;
            self.net.push(Pkt { at: self.now + dmin, seq: self.seq, src: asrc, dst, ecn, data: data.clone(), origin, kind: 6 });
            self.trace.push(vec![9, t, idx as i128, 6, aid, did, size]);
            self.trace.push(vec![9, t, idx as i128, 1, sid, did, size]);
            return;
        }
        let fair = self.p.get(k::FAIR_RUN, 0);
        let mut lose = self.rng.chance(loss);
        if lose && fair > 0 && self.drop_run[src_ep.min(1)] >= fair {
            lose = false; // fair loss: never more than `fair` random drops in a row per direction
        }
        if masked || lose {
            if lose {
                self.drop_run[src_ep.min(1)] += 1;
            }
            self.trace.push(vec![9, t, idx as i128, 1, sid, did, size]);
            return;
        }
        self.drop_run[src_ep.min(1)] = 0;
        let mut copies = 1;
        if dupmask || self.rng.chance(dup) {
            copies = 2 + self.rng.below(2);
        }
        for c in 0..copies {
            let mut d = data.clone();
            let mut action = if c == 0 { 0 } else { 2 };
            if self.rng.chance(corrupt) && !d.is_empty() {
                let i = self.rng.below(d.len() as u64) as usize;
                d[i] ^= 1 << self.rng.below(8);
                action = 3;
            }
            let delay = dmin + self.rng.below(dmax - dmin + 1) + if c > 0 { self.rng.below(dmax + 1) } else { 0 };
            self.seq += 1;
            self.net.push(Pkt { at: self.now + delay, seq: self.seq, src, dst, ecn, data: d, origin, kind: action });
            self.trace.push(vec![9, t, idx as i128, action, sid, did, size]);
        }
    }

    fn attacker_inject(&mut self) {
        // bounded attacker: at most 400 injected datagrams per run (each one causes a wake-up)
        if self.injected >= 400 {
            return;
        }
        let p = &self.p;
        let replay = p.get(k::REPLAY, 0);
        let spoof = p.get(k::SPOOF, 0);
        let garbage = p.get(k::GARBAGE, 0);
        if !self.stored.is_empty() && self.rng.chance(replay) {
            let i = self.rng.below(self.stored.len() as u64) as usize;
            let (src, dst, data, origin) = (self.stored[i].0, self.stored[i].1, self.stored[i].2.clone(), self.stored[i].3);
            self.seq += 1;
            let sid = self.addr_id(src);
            let did = self.addr_id(dst);
            self.injected += 1;
            self.trace.push(vec![9, self.now as i128, -1, 5, sid, did, data.len() as i128]);
            self.net.push(Pkt { at: self.now + 1 + self.rng.below(5000), seq: self.seq, src, dst, ecn: None, data, origin, kind: 5 });
        }
        if !self.stored.is_empty() && self.rng.chance(spoof) {
            let i = self.rng.below(self.stored.len() as u64) as usize;
            let (_, dst, data, origin) = (self.stored[i].0, self.stored[i].1, self.stored[i].2.clone(), self.stored[i].3);
            let src = SocketAddr::new(IpAddr::V4(Ipv4Addr::new(10, 6, 6, 6)), 6666 + self.rng.below(3) as u16);
            self.seq += 1;
            let sid = self.addr_id(src);
            let did = self.addr_id(dst);
            self.injected += 1;
            self.trace.push(vec![9, self.now as i128, -1, 6, sid, did, data.len() as i128]);
            self.net.push(Pkt { at: self.now + 1 + self.rng.below(5000), seq: self.seq, src, dst, ecn: None, data, origin, kind: 6 });
        }
        if self.rng.chance(garbage) {
            let mut data: Vec<u8>;
            let mut forged: Option<(SocketAddr, SocketAddr)> = None;
            if !self.stored.is_empty() && self.rng.chance(250) {
                // structure-aware forgeries built from the cleartext of a genuine long-header
                // datagram: Version Negotiation, Retry with a bogus integrity tag, and a
                // short-header datagram ending in a random "reset token"
                let i = self.rng.below(self.stored.len() as u64) as usize;
                let g = self.stored[i].2.clone();
                let (gsrc, gdst) = (self.stored[i].0, self.stored[i].1);
                let mut out: Vec<u8> = Vec::new();
                if g.len() > 7 && g[0] & 0x80 != 0 {
                    let dl = g[5] as usize;
                    if 6 + dl < g.len() {
                        let dcid = g[6..6 + dl].to_vec();
                        let sl = g[6 + dl] as usize;
                        if 7 + dl + sl <= g.len() {
                            let scid = g[7 + dl..7 + dl + sl].to_vec();
                            let is_initial = (g[0] >> 4) & 3 == 0;
                            let pick = if is_initial { self.rng.below(4) } else { self.rng.below(2) };
                            match pick {
                                2 | 3 => {
                                    // two coalesced bogus Initials in one datagram of the same size, sent
                                    // from the genuine source: neither authenticates
                                    let mut j = 7 + dl + sl;
                                    let rd = |d: &[u8], j: usize| -> Option<(u64, usize)> {
                                        if j >= d.len() {
                                            return None;
                                        }
                                        let n = 1usize << (d[j] >> 6);
                                        if j + n > d.len() {
                                            return None;
                                        }
                                        let mut v = (d[j] & 0x3f) as u64;
                                        for k in 1..n {
                                            v = (v << 8) | d[j + k] as u64;
                                        }
                                        Some((v, n))
                                    };
                                    if let Some((tl, n)) = rd(&g, j) {
                                        j += n + tl as usize;
                                        if j < g.len() {
                                            let hdr = g[..j].to_vec(); // up to (excluding) the Length field
                                            let total = g.len().max(1200);
                                            let first_payload = 30usize;
                                            let mut a_pkt = hdr.clone();
                                            put_var(&mut a_pkt, first_payload as u64);
                                            for _ in 0..first_payload {
                                                a_pkt.push(self.rng.below(256) as u8);
                                            }
                                            let mut b_pkt = hdr.clone();
                                            let rest = total.saturating_sub(a_pkt.len() + hdr.len() + 2).max(40);
                                            b_pkt.extend_from_slice(&((rest as u16) | 0x4000).to_be_bytes());
                                            for _ in 0..rest {
                                                b_pkt.push(self.rng.below(256) as u8);
                                            }
                                            out = a_pkt;
                                            out.extend_from_slice(&b_pkt);
                                            forged = Some((gsrc, gdst));
                                        }
                                    }
                                }
                                0 => {
                                    // Version Negotiation towards the sender of `g`
                                    out.push(0x80 | (self.rng.below(128) as u8));
                                    out.extend_from_slice(&[0, 0, 0, 0]);
                                    out.push(scid.len() as u8);
                                    out.extend_from_slice(&scid);
                                    out.push(dcid.len() as u8);
                                    out.extend_from_slice(&dcid);
                                    // the "version list" starts with the bytes of a CONNECTION_CLOSE frame
                                    // (0x1c, error 0, frame type 0, empty reason): a connection that treated
                                    // the payload of this unauthenticated packet as frames would start draining
                                    out.extend_from_slice(&[0x1c, 0, 0, 0, 0x0a, 0x1a, 0x2a, 0x3a, 0xff, 0, 0, 0x1d]);
                                }
                                _ => {
                                    // Retry towards the sender of `g` with a made-up tag
                                    let nib = self.rng.below(16) as u8;
                                    out.push(0xf0 | nib);
                                    out.extend_from_slice(&g[1..5]);
                                    out.push(scid.len() as u8);
                                    out.extend_from_slice(&scid);
                                    out.push(8);
                                    out.extend_from_slice(&[0xEE; 8]);
                                    if nib & 1 == 1 {
                                        // a "token" that reads as CONNECTION_CLOSE + PADDING (see above)
                                        out.extend_from_slice(&[0x1c, 0, 0, 0]);
                                        out.extend_from_slice(&[0; 20]);
                                    } else {
                                        out.extend_from_slice(&[0x77; 24]);
                                    }
                                    for _ in 0..16 {
                                        out.push(self.rng.below(256) as u8);
                                    }
                                }
                            }
                            if forged.is_none() {
                                forged = Some((gdst, gsrc));
                            }
                        }
                    }
                } else if g.len() > 30 {
                    // stateless-reset look-alike: keep the header byte and CID, random rest
                    out.extend_from_slice(&g[..1 + 8.min(g.len() - 1)]);
                    for _ in 0..(30 + self.rng.below(40)) {
                        out.push(self.rng.below(256) as u8);
                    }
                    forged = Some((gsrc, gdst));
                }
                data = out;
                if forged.is_none() {
                    data = (0..40).map(|_| self.rng.below(256) as u8).collect();
                }
            } else if !self.stored.is_empty() && self.rng.chance(600) {
                let i = self.rng.below(self.stored.len() as u64) as usize;
                data = self.stored[i].2.clone();
                match self.rng.below(4) {
                    0 => {
                        let n = self.rng.below(data.len() as u64 + 1) as usize;
                        data.truncate(n);
                    }
                    1 => {
                        for _ in 0..(1 + self.rng.below(4)) {
                            if data.is_empty() {
                                break;
                            }
                            let j = self.rng.below(data.len().min(40) as u64) as usize;
                            data[j] = self.rng.below(256) as u8;
                        }
                    }
                    2 => {
                        let extra = self.rng.below(40) as usize;
                        for _ in 0..extra {
                            data.push(self.rng.below(256) as u8);
                        }
                    }
                    _ => {
                        if !data.is_empty() {
                            let j = self.rng.below(data.len() as u64) as usize;
                            data[j] ^= 1 << self.rng.below(8);
                        }
                    }
                }
            } else {
                let n = self.rng.below(1400) as usize;
                data = (0..n).map(|_| self.rng.below(256) as u8).collect();
            }
            let to_server = self.rng.chance(700);
            let (src, dst) = if let Some(f) = forged {
                f
            } else if to_server {
                (if self.rng.chance(500) { self.eps[0].addr } else { SocketAddr::new(IpAddr::V4(Ipv4Addr::new(10, 6, 6, 6)), 6666) }, self.eps[1].addr)
            } else {
                (self.eps[1].addr, self.eps[0].addr)
            };
            self.seq += 1;
            let sid = self.addr_id(src);
            let did = self.addr_id(dst);
            self.injected += 1;
            self.trace.push(vec![9, self.now as i128, -1, 7, sid, did, data.len() as i128]);
            self.net.push(Pkt { at: self.now + 1, seq: self.seq, src, dst, ecn: None, data, origin: -2, kind: 7 });
        }
    }

    // -------------------------------------------------------------------------------------
    fn deliver_due(&mut self) {
        loop {
            // earliest due packet
            let mut best: Option<usize> = None;
            for (i, pk) in self.net.iter().enumerate() {
                if pk.at <= self.now {
                    match best {
                        None => best = Some(i),
                        Some(b) => {
                            if (pk.at, pk.seq) < (self.net[b].at, self.net[b].seq) {
                                best = Some(i)
                            }
                        }
                    }
                }
            }
            let Some(i) = best else { break };
            let pk = self.net.swap_remove(i);
            let epi = if pk.dst == self.eps[0].addr {
                0
            } else if pk.dst == self.eps[1].addr {
                1
            } else {
                // nobody listens there any more (old client address, attacker address)
                let sid = self.addr_id(pk.src);
                let did = self.addr_id(pk.dst);
                self.trace.push(vec![2, self.now as i128, -1, sid, pk.data.len() as i128, 9, -1, 0, pk.origin, pk.kind, 0, did]);
                continue;
            };
            let silence_after = self.p.get(k::SILENCE_AFTER, -1);
            if silence_after >= 0 && self.delivered as i128 >= silence_after {
                let side = self.p.get(k::SILENCE_SIDE, 1) as usize;
                self.eps[side].silent = true;
            }
            if self.eps[epi].silent {
                continue;
            }
            self.delivered += 1;
            self.handle_datagram(epi, pk);
        }
    }

    fn handle_datagram(&mut self, epi: usize, pk: Pkt) {
        let now = self.inst(self.now);
        let t = self.now as i128;
        let sid = self.addr_id(pk.src);
        let size = pk.data.len() as i128;
        let mut buf = Vec::new();
        let data = BytesMut::from(&pk.data[..]);
        let (origin, kind) = (pk.origin, pk.kind);
        let hflags = header_flags(&pk.data);
        let ev = self.eps[epi].ep.handle(now, pk.src, None, pk.ecn, data, &mut buf);
        match ev {
            None => self.trace.push(vec![2, t, epi as i128, sid, size, 0, -1, 0, origin, kind, hflags]),
            Some(DatagramEvent::ConnectionEvent(ch, ev)) => {
                let ridx = self.eps[epi].conns.get(&ch.0).map_or(-3, |c| c.conn_index as i128);
                self.trace.push(vec![2, t, epi as i128, sid, size, 1, ridx, 0, origin, kind, hflags]);
                if let Some(cs) = self.eps[epi].conns.get_mut(&ch.0) {
                    cs.conn.handle_event(ev);
                    // one probe per handled datagram: several datagrams may be due at one instant and
                    // the monitors explain every state change as ONE step
                    self.probe(epi, ch.0, None);
                    // ... under its own tag (18), so that monitors relying on "a probe is followed by
                    // poll_transmit" are not confused
                    if let Some(last) = self.trace.last_mut() {
                        if last[0] == 8 {
                            last[0] = 18;
                        }
                    }
                } else {
                    self.trace.push(vec![11, t, epi as i128, -3, 1]); // routed to unknown/forgotten handle
                }
            }
            Some(DatagramEvent::NewConnection(incoming)) => {
                let validated = incoming.remote_address_validated();
                let odcid = incoming.orig_dst_cid();
                let pair_idx = if odcid.len() >= 2 && odcid[0] == 0xD0 { odcid[1] as usize } else { 255 };
                // index this attempt will get if accepted (later incarnations: pair + 1000 * k)
                let prev_inc = self.accepted_pairs.iter().filter(|p| **p == pair_idx).count();
                let new_idx = pair_idx + 1000 * prev_inc;
                self.trace.push(vec![2, t, epi as i128, sid, size, 2, new_idx as i128, validated as i128, origin, kind, hflags]);
                let retry_mode = self.p.get(k::RETRY, 0);
                // RETRY 1: retry unvalidated addresses; 2: retry whenever still possible (also when a
                // NEW_TOKEN token already validated the address)
                if ((retry_mode == 1 && !validated) || retry_mode == 2) && incoming.may_retry() {
                    let tr = self.eps[epi].ep.retry(incoming, &mut buf).unwrap();
                    let did_ = self.addr_id_of(tr.destination);
                    self.trace.push(vec![1, t, epi as i128, -1, did_, tr.size as i128, 0, 0, 1]);
                    let b = buf.clone();
                    self.put_on_wire(epi, &tr, &b, -1);
                } else {
                    if let Some(sh) = &self.tp {
                        sh.cur_idx.store(new_idx as i64, std::sync::atomic::Ordering::SeqCst);
                    }
                    let accepted = self.eps[epi].ep.accept(incoming, now, &mut buf, None);
                    self.drain_tp_log();
                    match accepted {
                        Ok((ch, conn)) => {
                            // a replayed Initial may open a second attempt under the same pair
                            // identity: later incarnations get index pair + 1000 * k
                            let prev = self.accepted_pairs.iter().filter(|p| **p == pair_idx).count();
                            self.accepted_pairs.push(pair_idx);
                            let idx = pair_idx + 1000 * prev;
                            let mut app = self.new_app(false, idx);
                            if self.p.get(k::ZERO_RTT, 0) > 0 && idx == 0 {
                                app.warmup = true;
                                app.want_uni = 0;
                                app.dgrams_left = 0;
                            }
                            self.trace.push(vec![3, t, epi as i128, idx as i128, 21, ch.0 as i128]);
                            self.eps[epi].conns.insert(ch.0, ConnSt { conn, app, wake_at: None, last_deadline: None, drained: false, conn_index: idx });
                        }
                        Err(e) => {
                            let (a, code) = match &e.cause {
                                ConnectionError::TransportError(te) => (2, u64::from(te.code) as i128),
                                ConnectionError::ConnectionClosed(cc) => (3, u64::from(cc.error_code) as i128),
                                _ => (0, 0),
                            };
                            self.trace.push(vec![3, t, epi as i128, -1, 22, 0, a, code, new_idx as i128]);
                            if let Some(tr) = e.response {
                                let did_ = self.addr_id_of(tr.destination);
                    self.trace.push(vec![1, t, epi as i128, -1, did_, tr.size as i128, 0, 0, 2]);
                                let b = buf.clone();
                                self.put_on_wire(epi, &tr, &b, -1);
                            }
                        }
                    }
                }
            }
            Some(DatagramEvent::Response(tr)) => {
                self.trace.push(vec![2, t, epi as i128, sid, size, 3, -1, tr.size as i128, origin, kind, hflags]);
                let did_ = self.addr_id_of(tr.destination);
                    self.trace.push(vec![1, t, epi as i128, -1, did_, tr.size as i128, 0, 0, 3]);
                let b = buf.clone();
                self.put_on_wire(epi, &tr, &b, -1);
            }
        }
    }

    fn addr_id_of(&mut self, a: SocketAddr) -> i128 {
        self.addr_id(a)
    }

    // -------------------------------------------------------------------------------------
    // application logic; returns true if it did anything
    fn app_step(&mut self, epi: usize, chk: usize) -> bool {
        let t = self.now as i128;
        let e = epi as i128;
        let c = self.eps[epi].conns[&chk].conn_index as i128;
        let p_chunk = self.p.get(k::WRITE_CHUNK, 1000) as usize;
        let read_max = self.p.get(k::READ_MAX, 4096) as usize;
        let ordered = self.p.get(k::READ_ORDERED, 1) != 0;
        let dsize = self.p.get(k::DGRAM_SIZE, 100) as usize;
        let ddrop = self.p.get(k::DGRAM_DROP, 0) != 0;
        let reset_at = self.p.get(k::RESET_AT_BYTES, 0) as u64;
        let stop_at = self.p.get(k::STOP_AT_BYTES, 0) as u64;
        let closer = self.p.get(k::CLOSER, 0);
        let close_at = self.p.get(k::CLOSE_AT, 0);
        let zero_rtt = self.p.get(k::ZERO_RTT, 0);
        let self_server_early = self.p.get(k::SERVER_EARLY, 0) != 0;
        let read_serial = self.p.get(k::READ_SERIAL, 0) as u64;
        let early_stop = self.p.get(k::EARLY_STOP, 0) as u64;
        let no_redo = self.p.get(k::NO_REDO, 0) != 0;
        let dgram_interval = self.p.get(k::DGRAM_INTERVAL, 0) as u64;
        let dgram_alt = self.p.get(k::DGRAM_ALT, 0);
        let dgram_total = self.p.get(k::NDGRAM, 0) as u64;
        let dgram_start = self.p.get(k::DGRAM_START, 0) as u64;
        let now_us = self.now;
        let mut new_app_wake: Option<u64> = None;
        let self_nbidi = self.p.get(k::NBIDI, 1) as u64;
        let self_nuni = self.p.get(k::NUNI, 0) as u64;
        let self_ndgram = self.p.get(k::NDGRAM, 0) as u64;
        let now_i = self.inst(self.now);
        let mut tr: Vec<Vec<i128>> = Vec::new();
        let mut did = false;
        let cs = self.eps[epi].conns.get_mut(&chk).unwrap();
        let conn = &mut cs.conn;
        let app = &mut cs.app;
        // events
        // event-derived work survives until the application is able to act on it
        let mut writable: Vec<StreamId> = std::mem::take(&mut app.p_writable);
        let mut readable: Vec<StreamId> = std::mem::take(&mut app.p_readable);
        let mut opened = std::mem::take(&mut app.p_opened);
        let mut avail = std::mem::take(&mut app.p_avail);
        let mut dgram_rx = std::mem::take(&mut app.p_dgram_rx);
        let mut dgram_unblocked = std::mem::take(&mut app.p_dgram_unblocked);
        while let Some(ev) = conn.poll() {
            did = true;
            match ev {
                Event::HandshakeDataReady => tr.push(vec![4, t, e, c, 1, 0, 0]),
                Event::Connected => {
                    app.connected = true;
                    tr.push(vec![4, t, e, c, 2, conn.accepted_0rtt() as i128, app.early_started as i128]);
                    if app.is_client && app.early_started && !conn.accepted_0rtt() {
                        // early data rejected: everything starts over on a fresh connection state
                        tr.push(vec![13, t, 7, c]);
                        if no_redo {
                            // stay connected for a while: anything left over from the early attempt
                            // would now be sent
                            app.hold_close_until = now_us + 300_000u64.max(12 * self.p.get(k::DELAY_MAX, 10_000).max(self.p.get(k::DELAY_MIN, 10_000)) as u64);
                            new_app_wake = Some(app.hold_close_until);
                        }
                        app.want_bidi = if no_redo { 0 } else { self_nbidi };
                        app.want_uni = if no_redo { 0 } else { self_nuni };
                        app.out.clear();
                        app.inp.clear();
                        app.expect_in = 0;
                        app.dgrams_left = if no_redo { 0 } else { self_ndgram };
                        app.dgram_next = 0;
                        app.started = false;
                    }
                }
                Event::HandshakeConfirmed => tr.push(vec![4, t, e, c, 12, 0, 0]),
                Event::ConnectionLost { reason } => {
                    app.lost = true;
                    let (kind, code) = match &reason {
                        ConnectionError::VersionMismatch => (1, 0),
                        ConnectionError::TransportError(te) => (2, u64::from(te.code) as i128),
                        ConnectionError::ConnectionClosed(cc) => (3, u64::from(cc.error_code) as i128),
                        ConnectionError::ApplicationClosed(ac) => (4, ac.error_code.into_inner() as i128),
                        ConnectionError::Reset => (5, 0),
                        ConnectionError::TimedOut => (6, 0),
                        ConnectionError::LocallyClosed => (7, 0),
                        ConnectionError::CidsExhausted => (8, 0),
                    };
                    tr.push(vec![4, t, e, c, 3, kind, code]);
                }
                Event::Stream(StreamEvent::Opened { dir }) => {
                    opened = true;
                    tr.push(vec![4, t, e, c, 4, dir as i128, 0]);
                }
                Event::Stream(StreamEvent::Readable { id }) => {
                    readable.push(id);
                    tr.push(vec![4, t, e, c, 5, u64::from(id) as i128, 0]);
                }
                Event::Stream(StreamEvent::Writable { id }) => {
                    writable.push(id);
                    tr.push(vec![4, t, e, c, 6, u64::from(id) as i128, 0]);
                }
                Event::Stream(StreamEvent::Finished { id }) => {
                    for o in app.out.iter_mut() {
                        if o.id == id {
                            o.fin_acked = true;
                        }
                    }
                    tr.push(vec![4, t, e, c, 7, u64::from(id) as i128, 0]);
                }
                Event::Stream(StreamEvent::Stopped { id, error_code }) => {
                    for o in app.out.iter_mut() {
                        if o.id == id {
                            o.stopped = true;
                        }
                    }
                    tr.push(vec![4, t, e, c, 8, u64::from(id) as i128, error_code.into_inner() as i128]);
                }
                Event::Stream(StreamEvent::Available { dir }) => {
                    avail = true;
                    tr.push(vec![4, t, e, c, 9, dir as i128, 0]);
                }
                Event::DatagramReceived => {
                    dgram_rx = true;
                    tr.push(vec![4, t, e, c, 10, 0, 0]);
                }
                Event::DatagramsUnblocked => {
                    dgram_unblocked = true;
                    tr.push(vec![4, t, e, c, 11, 0, 0]);
                }
            }
        }
        let can_start = app.connected || (app.is_client && zero_rtt > 0 && conn.has_0rtt()) || !app.is_client;
        let may_open = app.connected || app.is_client || self_server_early;
        if !app.connected && can_start && app.is_client {
            app.early_started = true;
        }
        if app.warmup {
            // warm-up connection: just obtain a session ticket, then close
            if app.is_client && app.connected && !app.closed_local && self.now >= 150_000 {
                conn.close(now_i, VarInt::from_u32(41), Bytes::from_static(b"warmup"));
                app.closed_local = true;
                tr.push(vec![3, t, e, c, 11, 41, 0, 0]);
                did = true;
            }
        } else if !(!app.lost && !app.closed_local && can_start) {
            app.p_writable = writable;
            app.p_readable = readable;
            app.p_opened = opened;
            app.p_avail = avail;
            app.p_dgram_rx = dgram_rx;
            app.p_dgram_unblocked = dgram_unblocked;
        } else {
            // delayed stop() calls (EARLY_STOP)
            let due: Vec<StreamId> = app.pending_stops.iter().filter(|(w, _)| *w <= now_us).map(|(_, id)| *id).collect();
            app.pending_stops.retain(|(w, _)| *w > now_us);
            for id in due {
                let r = conn.recv_stream(id).stop(VarInt::from_u32(88));
                tr.push(vec![3, t, e, c, 8, u64::from(id) as i128, 88, r.is_ok() as i128]);
                did = true;
            }
            // open streams
            if may_open && (!app.started || avail) {
                app.started = true;
                while app.want_bidi > 0 {
                    match conn.streams().open(Dir::Bi) {
                        Some(id) => {
                            app.want_bidi -= 1;
                            tr.push(vec![3, t, e, c, 1, u64::from(id) as i128, 0, 0]);
                            app.out.push(OutStream { id, total: app.stream_bytes, written: 0, finished: false, reset: false, stopped: false, fin_acked: false });
                            if early_stop > 0 && app.is_client {
                                // stop the receive half a little later (EARLY_STOP us after opening),
                                // i.e. after the first flight left and before any reply can arrive
                                app.pending_stops.push((now_us + early_stop - 1, id));
                                new_app_wake = Some(now_us + early_stop - 1);
                                app.inp.insert(u64::from(id), InStream { read: 0, done: true, ranges: Vec::new() });
                            } else {
                                app.expect_in += 1;
                            }
                            writable.push(id);
                            did = true;
                        }
                        None => {
                            tr.push(vec![3, t, e, c, 1, -1, 0, 0]);
                            break;
                        }
                    }
                }
                while app.want_uni > 0 {
                    match conn.streams().open(Dir::Uni) {
                        Some(id) => {
                            app.want_uni -= 1;
                            tr.push(vec![3, t, e, c, 1, u64::from(id) as i128, 1, 0]);
                            app.out.push(OutStream { id, total: app.stream_bytes, written: 0, finished: false, reset: false, stopped: false, fin_acked: false });
                            writable.push(id);
                            did = true;
                        }
                        None => {
                            tr.push(vec![3, t, e, c, 1, -1, 1, 0]);
                            break;
                        }
                    }
                }
            }
            // accept
            if opened {
                for dir in [Dir::Bi, Dir::Uni] {
                    while let Some(id) = conn.streams().accept(dir) {
                        tr.push(vec![3, t, e, c, 12, u64::from(id) as i128, dir as i128, 0]);
                        app.inp.insert(u64::from(id), InStream { read: 0, done: false, ranges: Vec::new() });
                        readable.push(id);
                        did = true;
                    }
                }
            }
            // reads
            readable.sort();
            readable.dedup();
            if read_serial > 0 && now_us < app.next_read_at {
                // the slow reader is pausing between two streams
                app.p_readable.extend_from_slice(&readable);
                readable.clear();
            }
            if read_serial > 0 {
                // only the lowest unfinished stream is read now; the rest stays pending
                let undone: Vec<StreamId> = readable.iter().cloned().filter(|id| !app.inp.get(&u64::from(*id)).is_some_and(|i| i.done)).collect();
                if undone.len() > 1 {
                    app.p_readable.extend_from_slice(&undone[1..]);
                    readable = vec![undone[0]];
                }
            }
            for id in readable {
                let sid = u64::from(id);
                let peer_salt = if app.is_client { app.salt + 500 } else { app.salt - 500 };
                let ins = app.inp.entry(sid).or_insert(InStream { read: 0, done: false, ranges: Vec::new() });
                if ins.done {
                    continue;
                }
                let mut rs = conn.recv_stream(id);
                match rs.read(ordered) {
                    Err(ReadableError::ClosedStream) => tr.push(vec![3, t, e, c, 5, sid as i128, -1, -1, 0, 2]),
                    Err(ReadableError::IllegalOrderedRead) => tr.push(vec![3, t, e, c, 5, sid as i128, -1, -1, 0, 3]),
                    Ok(mut chunks) => {
                        loop {
                            match chunks.next(read_max) {
                                Ok(Some(ch)) => {
                                    let mut ok = 1;
                                    for (i, b) in ch.bytes.iter().enumerate() {
                                        if *b != pattern(sid, ch.offset + i as u64, peer_salt) {
                                            ok = 0;
                                            break;
                                        }
                                    }
                                    ins.read += ch.bytes.len() as u64;
                                    ins.ranges.push((ch.offset, ch.offset + ch.bytes.len() as u64));
                                    tr.push(vec![3, t, e, c, 5, sid as i128, ch.offset as i128, ch.bytes.len() as i128, ok, 0]);
                                    did = true;
                                    if stop_at > 0 && sid >> 2 == 0 && ins.read >= stop_at {
                                        break;
                                    }
                                }
                                Ok(None) => {
                                    if read_serial > 0 {
                                        app.next_read_at = now_us + read_serial;
                                        new_app_wake = Some(app.next_read_at);
                                    }
                                    ins.done = true;
                                    tr.push(vec![3, t, e, c, 6, sid as i128, ins.read as i128, 0]);
                                    did = true;
                                    break;
                                }
                                Err(ReadError::Blocked) => break,
                                Err(ReadError::Reset(code)) => {
                                    ins.done = true;
                                    tr.push(vec![3, t, e, c, 7, sid as i128, code.into_inner() as i128, 0]);
                                    did = true;
                                    break;
                                }
                            }
                        }
                        let _ = chunks.finalize();
                    }
                }
                if stop_at > 0 && sid >> 2 == 0 && !ins.done && ins.read >= stop_at {
                    let r = conn.recv_stream(id).stop(VarInt::from_u32(77));
                    ins.done = true;
                    tr.push(vec![3, t, e, c, 8, sid as i128, 77, r.is_ok() as i128]);
                }
                // echo: once a bidi stream from the peer is fully read, reply on it
                if ins.done && !app.is_client && id.dir() == Dir::Bi && id.initiator() == Side::Client {
                    if !app.out.iter().any(|o| o.id == id) {
                        app.out.push(OutStream { id, total: app.echo_bytes, written: 0, finished: false, reset: false, stopped: false, fin_acked: false });
                        writable.push(id);
                    }
                }
            }
            // writes
            writable.sort();
            writable.dedup();
            for id in writable {
                let sid = u64::from(id);
                let salt = app.salt;
                let Some(o) = app.out.iter_mut().find(|o| o.id == id) else { continue };
                if o.finished || o.reset || o.stopped {
                    continue;
                }
                loop {
                    if reset_at > 0 && sid >> 2 == 0 && o.written >= reset_at && app.is_client {
                        let r = conn.send_stream(id).reset(VarInt::from_u32(55));
                        o.reset = true;
                        // give the RESET_STREAM time to arrive before the connection is closed
                        app.hold_close_until = app.hold_close_until.max(now_us + 300_000u64.max(12 * self.p.get(k::DELAY_MAX, 10_000).max(self.p.get(k::DELAY_MIN, 10_000)) as u64));
                        new_app_wake = Some(app.hold_close_until);
                        tr.push(vec![3, t, e, c, 4, sid as i128, 55, r.is_ok() as i128]);
                        did = true;
                        break;
                    }
                    if o.written >= o.total {
                        let r = conn.send_stream(id).finish();
                        o.finished = true;
                        tr.push(vec![3, t, e, c, 3, sid as i128, o.written as i128, r.is_ok() as i128]);
                        did = true;
                        break;
                    }
                    let n = p_chunk.min((o.total - o.written) as usize).max(1);
                    let data: Vec<u8> = (0..n).map(|i| pattern(sid, o.written + i as u64, salt)).collect();
                    match conn.send_stream(id).write(&data) {
                        Ok(m) => {
                            tr.push(vec![3, t, e, c, 2, sid as i128, o.written as i128, m as i128, n as i128]);
                            o.written += m as u64;
                            did = true;
                        }
                        Err(WriteError::Blocked) => {
                            tr.push(vec![3, t, e, c, 2, sid as i128, o.written as i128, -1, n as i128]);
                            break;
                        }
                        Err(WriteError::Stopped(code)) => {
                            o.stopped = true;
                            tr.push(vec![3, t, e, c, 2, sid as i128, o.written as i128, -2, code.into_inner() as i128]);
                            break;
                        }
                        Err(WriteError::ClosedStream) => {
                            o.stopped = true;
                            tr.push(vec![3, t, e, c, 2, sid as i128, o.written as i128, -3, 0]);
                            break;
                        }
                    }
                }
            }
            // datagrams
            let dgram_due = dgram_interval > 0 && now_us >= app.next_dgram_at;
            if app.dgrams_left > 0 && now_us < dgram_start {
                if !app.dgram_wake_set {
                    app.dgram_wake_set = true;
                    new_app_wake = Some(dgram_start);
                }
            } else if app.dgrams_left > 0 && (app.dgram_next == 0 || dgram_unblocked || dgram_due) {
                while app.dgrams_left > 0 {
                    let id = app.dgram_next;
                    // DGRAM_ALT 1: odd ids are small; 2: the first half is a burst of large ones, the
                    // second half small and paced
                    let burst_phase = dgram_alt == 2 && id < dgram_total / 2;
                    let small = self.p.get(k::DGRAM_SIZE2, 100).max(8) as usize;
                    let this_size = if (dgram_alt == 1 && id % 2 == 1) || (dgram_alt == 2 && !burst_phase) { small } else { dsize.max(8) };
                    let mut d = vec![0u8; this_size];
                    d[..8].copy_from_slice(&(id ^ (app.salt << 32)).to_be_bytes());
                    for i in 8..d.len() {
                        d[i] = pattern(id, i as u64, app.salt);
                    }
                    let max = conn.datagrams().max_size().map_or(-1, |x| x as i128);
                    let space = conn.datagrams().send_buffer_space() as i128;
                    match conn.datagrams().send(Bytes::from(d), ddrop) {
                        Ok(()) => {
                            tr.push(vec![3, t, e, c, 9, id as i128, this_size as i128, 0, max, space]);
                            app.dgram_next += 1;
                            app.dgrams_left -= 1;
                            did = true;
                            if dgram_interval > 0 && !burst_phase {
                                app.next_dgram_at = now_us + dgram_interval;
                                if app.dgrams_left > 0 {
                                    new_app_wake = Some(new_app_wake.map_or(app.next_dgram_at, |w: u64| w.min(app.next_dgram_at)));
                                }
                                break;
                            }
                        }
                        Err(err) => {
                            let code = match err {
                                quinn_proto::SendDatagramError::UnsupportedByPeer => 1,
                                quinn_proto::SendDatagramError::Disabled => 2,
                                quinn_proto::SendDatagramError::TooLarge => 3,
                                quinn_proto::SendDatagramError::Blocked(_) => 4,
                            };
                            tr.push(vec![3, t, e, c, 9, id as i128, this_size as i128, code, max, space]);
                            if code == 3 && dgram_interval > 0 {
                                // too large for the current path: skip this one, keep going later
                                app.dgram_next += 1;
                                app.dgrams_left -= 1;
                                app.next_dgram_at = now_us + dgram_interval;
                                new_app_wake = Some(app.next_dgram_at);
                            } else if code != 4 {
                                app.dgrams_left = 0;
                            }
                            break;
                        }
                    }
                }
            }
            if dgram_rx {
                while let Some(d) = conn.datagrams().recv() {
                    let mut ok = 1;
                    let mut id = -1i128;
                    if d.len() >= 8 {
                        let peer_salt = if app.is_client { app.salt + 500 } else { app.salt - 500 };
                        let raw = u64::from_be_bytes(d[..8].try_into().unwrap());
                        let idv = raw ^ (peer_salt << 32);
                        id = idv as i128;
                        for i in 8..d.len() {
                            if d[i] != pattern(idv, i as u64, peer_salt) {
                                ok = 0;
                                break;
                            }
                        }
                    } else {
                        ok = 0;
                    }
                    tr.push(vec![3, t, e, c, 10, id, d.len() as i128, ok]);
                    did = true;
                }
            }
            // close when done
            let i_close = (closer == 2) || (closer == 0 && app.is_client) || (closer == 1 && !app.is_client);
            let done = app.out.iter().all(|o| o.fin_acked || o.reset || o.stopped)
                && app.want_bidi == 0
                && app.want_uni == 0
                && app.inp.values().all(|i| i.done)
                && app.inp.len() as u64 >= app.expect_in
                && app.dgrams_left == 0
                && app.connected;
            let time_close = (close_at > 0 && self.now as i128 >= close_at) || app.force_close;
            let done = done && now_us >= app.hold_close_until;
            if i_close && ((close_at == 0 && done && (app.is_client || !app.inp.is_empty() || app.stream_bytes == 0)) || time_close) {
                let code = if app.is_client { 42 } else { 43 };
                let rl = self.p.get(k::CLOSE_REASON_LEN, 3).max(0) as usize;
                let reason = if rl == 3 { Bytes::from_static(b"bye") } else { Bytes::from(vec![b'r'; rl]) };
                conn.close(now_i, VarInt::from_u32(code), reason);
                app.closed_local = true;
                tr.push(vec![3, t, e, c, 11, code as i128, 0, 0]);
                did = true;
            }
        }
        self.trace.extend(tr);
        if let Some(w) = new_app_wake {
            self.app_wakes.push(w);
        }
        did
    }

    // -------------------------------------------------------------------------------------
    fn probe(&mut self, epi: usize, chk: usize, zombie: Option<usize>) {
        let base = self.base + Duration::from_micros(self.p.get(k::SHIFT_US, 0) as u64);
        let t = self.now as i128;
        let cs = match zombie {
            Some(z) => &self.eps[epi].zombies[z],
            None => &self.eps[epi].conns[&chk],
        };
        let mut v = vec![8, t, epi as i128, cs.conn_index as i128];
        v.extend(cs.conn.verif_probe(base));
        let st = cs.conn.stats();
        v.extend([
            st.udp_tx.datagrams as i128,
            st.udp_tx.bytes as i128,
            st.udp_rx.datagrams as i128,
            st.udp_rx.bytes as i128,
            st.path.lost_packets as i128,
            st.path.sent_packets as i128,
            st.path.congestion_events as i128,
            st.path.black_holes_detected as i128,
            st.frame_tx.stream as i128,
            st.frame_rx.stream as i128,
            st.frame_tx.crypto as i128,
            st.frame_rx.crypto as i128,
            st.frame_tx.datagram as i128,
            st.frame_rx.datagram as i128,
            st.frame_tx.acks as i128,
            st.frame_rx.acks as i128,
        ]);
        let ra = cs.conn.remote_address();
        let rid = self.addr_id(ra);
        let last = self.trace.len();
        let extra = [
            st.frame_tx.path_challenge as i128,
            st.frame_tx.path_response as i128,
            st.frame_tx.ping as i128,
            st.frame_rx.path_challenge as i128,
            st.frame_rx.path_response as i128,
        ];
        self.trace.push(v);
        self.trace[last].push(rid);
        self.trace[last].extend(extra);
    }

    fn drain_tp_log(&mut self) {
        if let Some(sh) = &self.tp {
            let l: Vec<_> = sh.log.lock().unwrap().drain(..).collect();
            for (side, idx, kind, ok) in l {
                self.trace.push(vec![13, self.now as i128, 9, side, idx, kind, ok]);
            }
        }
    }

    fn drive_conn(&mut self, epi: usize, chk: usize) {
        self.drain_tp_log();
        let mark = self.trace.len();
        let gso = self.p.get(k::GSO, 1).max(1) as usize;
        let oidx = self.eps[epi].conns[&chk].conn_index as i128;
        let mut rounds = 0;
        loop {
            rounds += 1;
            if rounds > 200 {
                self.trace.push(vec![11, self.now as i128, epi as i128, oidx, 2]); // livelock guard
                break;
            }
            let mut progress = self.app_step(epi, chk);
            // endpoint events
            loop {
                let ev = self.eps[epi].conns.get_mut(&chk).unwrap().conn.poll_endpoint_events();
                let Some(ev) = ev else { break };
                progress = true;
                let drained = ev.is_drained();
                self.trace.push(vec![5, self.now as i128, epi as i128, oidx, if drained { 1 } else { 2 }]);
                let back = self.eps[epi].ep.handle_event(ConnectionHandle(chk), ev);
                if let Some(cev) = back {
                    self.eps[epi].conns.get_mut(&chk).unwrap().conn.handle_event(cev);
                }
                if drained {
                    self.eps[epi].conns.get_mut(&chk).unwrap().drained = true;
                }
            }
            // transmits
            let now = self.inst(self.now);
            loop {
                self.probe(epi, chk, None);
                let mut buf = Vec::new();
                let tr = self.eps[epi].conns.get_mut(&chk).unwrap().conn.poll_transmit(now, gso, &mut buf);
                let Some(tr) = tr else { break };
                progress = true;
                let did = self.addr_id(tr.destination);
                let first_len = tr.segment_size.unwrap_or(tr.size).min(tr.size);
                let hf = header_flags(&buf[..first_len]);
                self.trace.push(vec![1, self.now as i128, epi as i128, oidx, did, tr.size as i128, tr.segment_size.map_or(0, |s| s as i128), ecn_code(tr.ecn), 0, hf]);
                if !self.eps[epi].silent {
                    self.put_on_wire(epi, &tr, &buf, oidx);
                }
            }
            if !progress {
                break;
            }
        }
        // timer
        let dl = self.eps[epi].conns[&chk].conn.poll_timeout();
        let rel = self.rel(dl);
        self.trace.push(vec![6, self.now as i128, epi as i128, oidx, rel]);
        let late = self.p.get(k::LATE_US, 0) as u64;
        let changed = self.eps[epi].conns[&chk].last_deadline != dl;
        if changed {
            let wake = dl.map(|_| rel.max(0) as u64 + if late > 0 { self.drv.below(late + 1) } else { 0 });
            let cs = self.eps[epi].conns.get_mut(&chk).unwrap();
            cs.wake_at = wake;
            cs.last_deadline = dl;
        }
        if self.eps[epi].conns[&chk].drained {
            let cs = self.eps[epi].conns.remove(&chk).unwrap();
            self.eps[epi].zombies.push(cs);
        } else if self.quiet && self.trace[mark..].iter().all(|r| r[0] == 8 || r[0] == 6) {
            // a busy-poll drive in which nothing happened leaves no records
            self.trace.truncate(mark);
        }
    }

    fn poke_zombies(&mut self) {
        let now = self.inst(self.now);
        for epi in 0..2 {
            for z in 0..self.eps[epi].zombies.len() {
                // the driver keeps servicing whatever deadline a drained connection still reports
                if self.eps[epi].zombies[z].conn.poll_timeout().is_some_and(|d| d <= now) {
                    self.eps[epi].zombies[z].conn.handle_timeout(now);
                }
                let mut buf = Vec::new();
                let tr = self.eps[epi].zombies[z].conn.poll_transmit(now, 1, &mut buf);
                let ev = self.eps[epi].zombies[z].conn.poll();
                let dl = self.eps[epi].zombies[z].conn.poll_timeout();
                let eev = self.eps[epi].zombies[z].conn.poll_endpoint_events();
                let idx = self.eps[epi].zombies[z].conn_index as i128;
                if tr.is_some() || ev.is_some() || dl.is_some() || eev.is_some() {
                    let base = self.base + Duration::from_micros(self.p.get(k::SHIFT_US, 0) as u64);
                    let pr = self.eps[epi].zombies[z].conn.verif_probe(base);
                    let mut rec = vec![12, self.now as i128, epi as i128, idx, tr.is_some() as i128, ev.is_some() as i128, dl.is_some() as i128, eev.is_some() as i128];
                    rec.extend_from_slice(&pr[18..27]);
                    self.trace.push(rec);
                }
            }
        }
    }

    pub fn run(&mut self) {
        let max_time = self.p.get(k::MAX_TIME, 60_000_000) as u64;
        let nconns = self.p.get(k::NCONNS, 1).max(1);
        let zero_rtt = self.p.get(k::ZERO_RTT, 0);
        let mut phase2_pending = zero_rtt > 0;
        if zero_rtt > 0 {
            self.connect_client(true);
        } else {
            for _ in 0..nconns {
                self.connect_client(false);
            }
        }
        let keys: Vec<usize> = self.eps[0].conns.keys().cloned().collect();
        for chk in keys {
            self.drive_conn(0, chk);
        }
        let mut migrated = 0;
        let mut reconnect_left = self.p.get(k::RECONNECT, 0);
        let mut replaced = 0usize;
        let mut keyupd = [false, false];
        let mut rwnd_done = false;
        let mut maxstreams_done = false;
        let mut forgot = false;
        let mut mtu_changed = false;
        let mut hostile_done = false;
        let mut end_reason = 0;
        loop {
            self.steps += 1;
            let busy_near = self.p.get(k::BUSY_NEAR_US, 0).max(0) as u64;
            if self.steps > if busy_near > 0 { 600_000 } else { 200_000 } {
                end_reason = 3;
                break;
            }
            // next wake time
            let mut next: Option<u64> = None;
            let mut upd = |x: u64| {
                next = Some(next.map_or(x, |n: u64| n.min(x)));
            };
            for pk in &self.net {
                upd(pk.at);
            }
            self.app_wakes.retain(|w| *w > self.now);
            for w in &self.app_wakes {
                upd(*w);
            }
            for ep in &self.eps {
                if ep.silent {
                    continue; // a crashed endpoint has no timers any more
                }
                for cs in ep.conns.values() {
                    if let Some(w) = cs.wake_at {
                        upd(w);
                    }
                }
            }
            for ep in &self.eps {
                for z in &ep.zombies {
                    if let Some(d) = z.conn.poll_timeout() {
                        let rel = self.rel(Some(d));
                        if rel > self.now as i128 {
                            upd(rel as u64);
                        }
                    }
                }
            }
            if phase2_pending {
                if self.now < 150_000 {
                    upd(150_000);
                }
                upd(1_000_000);
            }
            for key in [k::MIGRATE_AT, k::MIGRATE2_AT, k::KEYUPD_C, k::KEYUPD_S, k::CLOSE_AT, k::NEW_RWND_AT, k::LINK_MTU_AT, k::HOSTILE_AT, k::FORGET_AT, k::NEW_MAXSTREAMS_AT] {
                let v = self.p.get(key, 0);
                if v > 0 && v as u64 > self.now {
                    upd(v as u64);
                }
            }
            let Some(mut next) = next else {
                end_reason = 1;
                break;
            };
            // busy-polling driver: close to a connection's deadline, poll every microsecond
            self.quiet = false;
            if busy_near > 0 && next > self.now + 1 {
                let near = self.eps.iter().filter(|e| !e.silent).flat_map(|e| e.conns.values()).filter_map(|c| c.wake_at).min();
                if near.is_some_and(|w| w > self.now && w <= self.now + busy_near) {
                    next = self.now + 1;
                    self.quiet = true;
                }
            }
            if next > max_time {
                end_reason = 2;
                break;
            }
            // early poll: sometimes wake before the deadline
            let early = self.p.get(k::EARLY_POLL, 0);
            if early > 0 && next > self.now + 10 && self.drv.chance(early) {
                next = self.now + 1 + self.drv.below(next - self.now - 1);
            }
            self.now = next.max(self.now);
            *self.now_shared.lock().unwrap() = self.now;
            // scheduled world actions
            if phase2_pending && self.now >= 1_000_000 {
                phase2_pending = false;
                if zero_rtt == 2 {
                    // server restarted: fresh TLS ticket key, possibly different limits
                    let (cert, key) = load_cert();
                    let certd = quinn_proto::rustls::pki_types::CertificateDer::from(cert);
                    let keyd = quinn_proto::rustls::pki_types::PrivateKeyDer::Pkcs8(key.into());
                    let mut scfg = ServerConfig::with_single_cert(vec![certd], keyd).unwrap();
                    let mut tcfg = self.transport(true);
                    Self::apply_idle2(&self.p, &mut tcfg);
                    let srw = self.p.get(k::SERVER_RWND, 0);
                    if srw > 0 {
                        tcfg.receive_window(VarInt::from_u64(srw as u64).unwrap());
                    }
                    scfg.transport_config(Arc::new(tcfg));
                    scfg.token_key(quinn_proto_token_key(self.p.get(k::SEED, 1) as u64));
                    scfg.migration(self.p.get(k::MIGRATION_ALLOWED, 1) != 0);
                    scfg.time_source(Arc::new(SimTime {
                        base: std::time::UNIX_EPOCH + Duration::from_secs(1_700_000_000),
                        now_us: self.now_shared.clone(),
                    }));
                    self.eps[1].ep.set_server_config(Some(Arc::new(scfg)));
                }
                if zero_rtt == 1 && self.p.get(k::SERVER_IDLE2_MS, -1) >= 0 {
                    // same TLS configuration (tickets stay valid, 0-RTT is accepted), new transport parameters
                    let mut scfg = (**self.server_cfg.as_ref().unwrap()).clone();
                    let mut tcfg = self.transport(true);
                    Self::apply_idle2(&self.p, &mut tcfg);
                    scfg.transport_config(Arc::new(tcfg));
                    self.eps[1].ep.set_server_config(Some(Arc::new(scfg)));
                }
                self.trace.push(vec![13, self.now as i128, 6, zero_rtt]);
                for _ in 0..nconns {
                    self.connect_client(false);
                }
                let keys: Vec<usize> = self.eps[0].conns.keys().cloned().collect();
                for chk in keys {
                    self.drive_conn(0, chk);
                }
            }
            let mig_at = self.p.get(k::MIGRATE_AT, 0);
            let mig2_at = self.p.get(k::MIGRATE2_AT, 0);
            if (migrated == 0 && mig_at > 0 && self.now as i128 >= mig_at) || (migrated == 1 && mig2_at > 0 && self.now as i128 >= mig2_at) {
                migrated += 1;
                let old = self.eps[0].addr;
                let new = if self.p.get(k::MIGRATE_KIND, 0) == 0 {
                    SocketAddr::new(old.ip(), old.port() + 1)
                } else {
                    SocketAddr::new(IpAddr::V4(Ipv4Addr::new(10, 0, 1, migrated as u8)), old.port() + 7)
                };
                self.eps[0].addr = new;
                let nid = self.addr_id(new);
                self.trace.push(vec![13, self.now as i128, 1, nid]);
                // MIGRATE_SILENT: a NAT rebinding - the client does not notice, so it neither pings nor
                // switches to a fresh CID
                let silent_move = self.p.get(k::MIGRATE_SILENT, 0) == 1;
                for cs in self.eps[0].conns.values_mut() {
                    if silent_move {
                        continue;
                    }
                    cs.conn.local_address_changed();
                }
            }
            for (i, key) in [k::KEYUPD_C, k::KEYUPD_S].iter().enumerate() {
                let v = self.p.get(*key, 0);
                if v > 0 && !keyupd[i] && self.now as i128 >= v {
                    keyupd[i] = true;
                    for cs in self.eps[i].conns.values_mut() {
                        if !cs.conn.is_handshaking() && !cs.conn.is_closed() {
                            cs.conn.force_key_update();
                        }
                    }
                    self.trace.push(vec![13, self.now as i128, 2, i as i128]);
                }
            }
            let f_at = self.p.get(k::FORGET_AT, 0);
            if f_at > 0 && !forgot && self.now as i128 >= f_at {
                forgot = true;
                let cfg = self.restart_cfg.clone().unwrap();
                self.eps[1].ep = Endpoint::new(cfg, self.server_cfg.clone(), true);
                self.eps[1].conns.clear();
                self.eps[1].zombies.clear();
                self.trace.push(vec![13, self.now as i128, 11, 1]);
            }
            if self.p.get(k::RESET_FORGE, 0) == 2 && !self.forge2_done && migrated >= 1 {
                let dmin = self.p.get(k::DELAY_MIN, 10_000) as u64;
                let at = self.p.get(k::MIGRATE_AT, 0) as u64 + 6 * dmin;
                if self.now >= at {
                    self.forge2_done = true;
                    if let (Some(scid), Some(ccid)) = (self.first_server_cid.clone(), self.first_client_cid.clone()) {
                        // the token of the server's FIRST connection ID (the one in its transport
                        // parameters), which the client retired when it switched CIDs at its move
                        let seed = self.p.get(k::SEED, 1) as u64 ^ 0xABCD;
                        let mut rk = [0u8; 64];
                        for (i, b) in rk.iter_mut().enumerate() {
                            *b = (seed as u8).wrapping_add(i as u8).wrapping_mul(37) ^ 0x5E;
                        }
                        let key = ring_hmac(&rk);
                        let mut sig = [0u8; 32];
                        quinn_proto::crypto::HmacKey::sign(&key, &scid, &mut sig);
                        let mut f = vec![0x40 | (self.rng.below(64) as u8)];
                        f.extend_from_slice(&ccid);
                        for _ in 0..(25 + self.rng.below(20)) {
                            f.push(self.rng.below(256) as u8);
                        }
                        f.extend_from_slice(&sig[..16]);
                        let src = self.eps[1].addr;
                        let dst = self.eps[0].addr;
                        let (sid, did) = (self.addr_id(src), self.addr_id(dst));
                        self.seq += 1;
                        let sz = f.len() as i128;
                        self.net.push(Pkt { at: self.now + 1000, seq: self.seq, src, dst, ecn: None, data: f, origin: -2, kind: 7 });
                        self.trace.push(vec![9, self.now as i128, -1, 7, sid, did, sz]);
                    }
                }
            }
            let ms_at = self.p.get(k::NEW_MAXSTREAMS_AT, 0);
            if ms_at > 0 && !maxstreams_done && self.now as i128 >= ms_at && self.p.get(k::NEW_MAXSTREAMS_SIDE, 1) == 1 {
                let nb = self.p.get(k::NEW_MAX_BIDI, -1);
                let nu = self.p.get(k::NEW_MAX_UNI, -1);
                // once every expected server connection exists and has completed its handshake
                let ready = self.eps[1].conns.len() as i128 >= nconns
                    && self.eps[1].conns.values().all(|c| !c.conn.is_handshaking());
                if !ready {
                    // try again at the next iteration
                } else {
                maxstreams_done = true;
                for cs in self.eps[1].conns.values_mut() {
                    if nb >= 0 {
                        cs.conn.set_max_concurrent_streams(Dir::Bi, VarInt::from_u64(nb as u64).unwrap());
                    }
                    if nu >= 0 {
                        cs.conn.set_max_concurrent_streams(Dir::Uni, VarInt::from_u64(nu as u64).unwrap());
                    }
                }
                self.trace.push(vec![13, self.now as i128, 13, nb, nu]);
                let keys: Vec<usize> = self.eps[1].conns.keys().cloned().collect();
                for chk in keys {
                    self.drive_conn(1, chk);
                }
                }
            }
            let rw_at = self.p.get(k::NEW_RWND_AT, 0);
            if rw_at > 0 && !rwnd_done && self.now as i128 >= rw_at {
                rwnd_done = true;
                let v = self.p.get(k::NEW_RWND, 10000) as u64;
                for cs in self.eps[1].conns.values_mut() {
                    cs.conn.set_receive_window(VarInt::from_u64(v).unwrap());
                }
                self.trace.push(vec![13, self.now as i128, 3, v as i128]);
            }
            let lm_at = self.p.get(k::LINK_MTU_AT, 0);
            if lm_at > 0 && !mtu_changed && self.now as i128 >= lm_at {
                mtu_changed = true;
                self.link_mtu = self.p.get(k::LINK_MTU2, 1500) as usize;
                self.trace.push(vec![13, self.now as i128, 4, self.link_mtu as i128]);
            }
            let h_at = self.p.get(k::HOSTILE_AT, 0);
            if h_at > 0 && !hostile_done && self.now as i128 >= h_at {
                hostile_done = true;
                let side = self.p.get(k::HOSTILE_SIDE, 0).clamp(0, 1) as usize;
                let kind = self.p.get(k::HOSTILE_KIND, 1);
                let max_uni = self.p.get(k::MAX_UNI, 100) as u64;
                if let Some((&chk, _)) = self.eps[side].conns.iter().next() {
                    let (space, bytes) = hostile_frames(kind, side, max_uni, &mut self.rng);
                    let idx = self.eps[side].conns[&chk].conn_index as i128;
                    let ok = self.eps[side].conns.get_mut(&chk).unwrap().conn.verif_inject_frames(space, bytes);
                    self.trace.push(vec![13, self.now as i128, 8, side as i128, idx, kind, ok as i128]);
                    if ok {
                        self.drive_conn(side, chk);
                    }
                }
            }
            self.attacker_inject();
            self.deliver_due();
            // timeouts + drive
            let spurious = self.p.get(k::SPURIOUS, 0);
            for epi in 0..2 {
                let keys: Vec<usize> = self.eps[epi].conns.keys().cloned().collect();
                for chk in keys {
                    if self.eps[epi].silent {
                        continue;
                    }
                    let due = self.eps[epi].conns[&chk].wake_at.is_some_and(|w| w <= self.now);
                    let cot = self.p.get(k::CLOSE_ON_TIMER, 0);
                    if cot > 0 && due {
                        let base = self.base + Duration::from_micros(self.p.get(k::SHIFT_US, 0) as u64);
                        let pr = self.eps[epi].conns[&chk].conn.verif_probe(base);
                        let dl = pr[18 + (cot as usize - 1).min(8)];
                        if dl >= 0 && dl <= self.now as i128 {
                            let nth = self.p.get(k::CLOSE_ON_TIMER_N, 1);
                            let cs = self.eps[epi].conns.get_mut(&chk).unwrap();
                            cs.app.timer_hits += 1;
                            if cs.app.timer_hits == nth {
                                cs.app.force_close = true;
                            }
                        }
                    }
                    let sp = self.drv.chance(spurious);
                    if due || sp {
                        let now = self.inst(self.now);
                        let cs = self.eps[epi].conns.get_mut(&chk).unwrap();
                        cs.conn.handle_timeout(now);
                        cs.last_deadline = None;
                        cs.wake_at = None;
                        let oidx7 = self.eps[epi].conns[&chk].conn_index as i128;
                        self.trace.push(vec![7, self.now as i128, epi as i128, oidx7, due as i128]);
                    }
                    self.drive_conn(epi, chk);
                    if sp {
                        // extra polls must be harmless
                        if self.eps[epi].conns.contains_key(&chk) {
                            self.drive_conn(epi, chk);
                        }
                    }
                }
            }
            self.poke_zombies();
            // slot reuse: a drained client connection is replaced by a fresh one
            if reconnect_left > 0 && self.eps[0].zombies.len() > replaced && !self.eps[0].silent {
                replaced += 1;
                reconnect_left -= 1;
                self.connect_client(false);
                let keys: Vec<usize> = self.eps[0].conns.keys().cloned().collect();
                if let Some(chk) = keys.last() {
                    self.drive_conn(0, *chk);
                }
            }
        }
        self.drain_tp_log();
        // final summary per connection (live or zombie)
        let t = self.now as i128;
        for epi in 0..2 {
            let keys: Vec<usize> = self.eps[epi].conns.keys().cloned().collect();
            for chk in keys {
                self.probe(epi, chk, None);
                let cs = &self.eps[epi].conns[&chk];
                let a = &cs.app;
                let done_out = a.out.iter().filter(|o| o.fin_acked || o.reset || o.stopped).count() as i128;
                let done_in = a.inp.values().filter(|i| i.done).count() as i128;
                self.trace.push(vec![14, t, epi as i128, chk as i128, cs.conn_index as i128, a.connected as i128, a.lost as i128, a.closed_local as i128, a.out.len() as i128, done_out, a.inp.len() as i128, done_in, 0]);
            }
            for z in 0..self.eps[epi].zombies.len() {
                let cs = &self.eps[epi].zombies[z];
                let a = &cs.app;
                let done_out = a.out.iter().filter(|o| o.fin_acked || o.reset || o.stopped).count() as i128;
                let done_in = a.inp.values().filter(|i| i.done).count() as i128;
                self.trace.push(vec![14, t, epi as i128, -1, cs.conn_index as i128, a.connected as i128, a.lost as i128, a.closed_local as i128, a.out.len() as i128, done_out, a.inp.len() as i128, done_in, 1]);
            }
            let oc = self.eps[epi].ep.open_connections() as i128;
            self.trace.push(vec![15, t, epi as i128, oc]);
        }
        self.trace.push(vec![10, t, end_reason, self.steps as i128, self.wire_count as i128]);
    }
}

fn quinn_proto_reset_key(bytes: &[u8; 64]) -> Arc<dyn quinn_proto::crypto::HmacKey> {
    Arc::new(ring_hmac(bytes))
}

fn ring_hmac(bytes: &[u8; 64]) -> impl quinn_proto::crypto::HmacKey {
    RingHmac(ring::hmac::Key::new(ring::hmac::HMAC_SHA256, bytes))
}
struct RingHmac(ring::hmac::Key);
impl quinn_proto::crypto::HmacKey for RingHmac {
    fn sign(&self, data: &[u8], out: &mut [u8]) {
        out.copy_from_slice(ring::hmac::sign(&self.0, data).as_ref());
    }
    fn signature_len(&self) -> usize {
        32
    }
    fn verify(&self, data: &[u8], signature: &[u8]) -> Result<(), quinn_proto::crypto::CryptoError> {
        ring::hmac::verify(&self.0, data, signature).map_err(|_| quinn_proto::crypto::CryptoError)
    }
}

fn quinn_proto_token_key(seed: u64) -> Arc<dyn quinn_proto::crypto::HandshakeTokenKey> {
    let mut ikm = [0u8; 64];
    for (i, b) in ikm.iter_mut().enumerate() {
        *b = (seed >> (i % 8)) as u8 ^ (i as u8).wrapping_mul(13);
    }
    Arc::new(ring::hkdf::Salt::new(ring::hkdf::HKDF_SHA256, &[]).extract(&ikm))
}

fn put_var(b: &mut Vec<u8>, x: u64) {
    if x < 1 << 6 {
        b.push(x as u8);
    } else if x < 1 << 14 {
        b.extend_from_slice(&((x as u16) | 0x4000).to_be_bytes());
    } else if x < 1 << 30 {
        b.extend_from_slice(&((x as u32) | 0x8000_0000).to_be_bytes());
    } else {
        b.extend_from_slice(&(x | 0xC000_0000_0000_0000).to_be_bytes());
    }
}

/// Catalogue of hostile-but-authenticated frame sequences (C03/C06). `side` is the misbehaving
/// endpoint (0 client, 1 server); stream ids are chosen relative to it. Returns (space, bytes).
/// The prescribed outcome of each kind is tabled in coq/Sys/MonC03.v.
fn hostile_frames(kind: i128, side: usize, max_uni: u64, rng: &mut Rng) -> (u8, Vec<u8>) {
    let me = side as u64; // initiator bit of streams I open
    let peer = 1 - me;
    let my_uni0 = 2 + me; // my first uni stream
    let peer_uni0 = 2 + peer;
    // a stream of mine the application never opens (index 5): cannot already be closed
    let fresh = my_uni0 + 4 * 5;
    let mut b = Vec::new();
    let stream = |b: &mut Vec<u8>, id: u64, off: u64, len: usize, fin: bool| {
        b.push(0x08 | 0x04 | 0x02 | fin as u8);
        put_var(b, id);
        put_var(b, off);
        put_var(b, len as u64);
        b.extend(std::iter::repeat(0xAB).take(len));
    };
    match kind {
        1 => stream(&mut b, my_uni0 + 4 * (max_uni + 50), 0, 3, false),
        2 => stream(&mut b, fresh, 1 << 40, 1, false),
        3 => stream(&mut b, fresh, (1 << 62) - 2, 10, false),
        4 => {
            b.push(0x04);
            put_var(&mut b, fresh);
            put_var(&mut b, 7);
            put_var(&mut b, 1 << 40);
        }
        5 => stream(&mut b, peer_uni0, 0, 3, false),
        6 => {
            b.push(0x11);
            put_var(&mut b, my_uni0);
            put_var(&mut b, 1 << 20);
        }
        7 => {
            b.push(0x05);
            put_var(&mut b, peer + 4 * 1000);
            put_var(&mut b, 9);
        }
        8 => {
            b.push(0x02);
            put_var(&mut b, 1 << 30);
            put_var(&mut b, 0);
            put_var(&mut b, 0);
            put_var(&mut b, 0);
        }
        9 => {
            b.push(0x18);
            put_var(&mut b, 3);
            put_var(&mut b, 5);
            b.push(8);
            b.extend_from_slice(&[9; 8]);
            b.extend_from_slice(&[7; 16]);
        }
        10 => {
            b.push(0x18);
            put_var(&mut b, 1000);
            put_var(&mut b, 0);
            b.push(8);
            b.extend_from_slice(&[8; 8]);
            b.extend_from_slice(&[6; 16]);
        }
        11 => {
            b.push(0x19);
            put_var(&mut b, 1000);
        }
        12 => b.push(0x1e),
        13 => {
            b.push(0x07);
            put_var(&mut b, 4);
            b.extend_from_slice(&[1, 2, 3, 4]);
        }
        14 => {
            b.push(0x07);
            put_var(&mut b, 0);
        }
        15 => {
            b.push(0x06);
            put_var(&mut b, 1 << 30);
            put_var(&mut b, 1);
            b.push(0);
        }
        16 => {
            b.push(0x31);
            put_var(&mut b, 300);
            b.extend(std::iter::repeat(0x5A).take(300));
        }
        17 => {
            put_var(&mut b, 0x3f);
            b.extend_from_slice(&[0; 4]);
        }
        18 => {
            b.push(0x12);
            put_var(&mut b, (1 << 60) + 1);
        }
        19 => {
            stream(&mut b, fresh, 0, 5, true);
            stream(&mut b, fresh, 10, 1, false);
        }
        20 => {
            for fs in [5u64, 9] {
                b.push(0x04);
                put_var(&mut b, fresh);
                put_var(&mut b, 7);
                put_var(&mut b, fs);
            }
        }
        21 => {
            b.push(0x1b);
            b.extend_from_slice(&rng.next().to_be_bytes());
        }
        22 => b.extend_from_slice(&[0x01, 0x00, 0x00, 0x01]),
        23 => {
            let n = 4 + rng.below(40) as usize;
            for _ in 0..n {
                b.push(rng.below(256) as u8);
            }
        }
        24 => {
            b.push(0x08 | 0x02);
            put_var(&mut b, my_uni0);
            put_var(&mut b, 5000);
            b.extend_from_slice(&[1, 2, 3]);
        }
        25 => {
            b.push(0x10);
            put_var(&mut b, 1);
        }
        26 => {
            b.push(0x16);
            put_var(&mut b, (1 << 60) + 1);
        }
        27 => {
            b.push(0x02);
            put_var(&mut b, 3);
            put_var(&mut b, 0);
            put_var(&mut b, 0);
            put_var(&mut b, 9);
        }
        28 => {
            b.push(0x1c);
            put_var(&mut b, 1);
            put_var(&mut b, 0);
            put_var(&mut b, 0);
        }
        29 => {
            // a CRYPTO frame that STARTS inside the receiver's crypto buffer limit (16 KiB by default)
            // and ends beyond it
            b.push(0x06);
            put_var(&mut b, 16000);
            put_var(&mut b, 600);
            b.extend(std::iter::repeat(0x11).take(600));
        }
        _ => b.push(0x01),
    }
    (2, b)
}

/// Cleartext classification of a datagram: bit0 long header present, bit1 contains an Initial,
/// bit2 contains a Handshake packet, bit3 contains a 0-RTT packet, bit4 contains a Retry,
/// bit5 first packet is short-header, bit6 version-negotiation, bit7 supported version. Walks coalesced long-header
/// packets using their Length fields (RFC 9000 §17.2); stops at anything malformed.
fn header_flags(d: &[u8]) -> i128 {
    let mut flags = 0;
    let mut i = 0usize;
    let mut first = true;
    while i < d.len() {
        let b0 = d[i];
        if b0 & 0x80 == 0 {
            if first {
                flags |= 32;
            }
            break;
        }
        flags |= 1;
        if i + 6 > d.len() {
            break;
        }
        let version = u32::from_be_bytes([d[i + 1], d[i + 2], d[i + 3], d[i + 4]]);
        if version == 0 {
            flags |= 64;
            break;
        }
        if quinn_proto::DEFAULT_SUPPORTED_VERSIONS.contains(&version) {
            flags |= 128;
        } else {
            // unsupported version: nothing after the version field can be interpreted
            break;
        }
        let mut j = i + 5;
        let dl = d[j] as usize;
        j += 1 + dl;
        if j >= d.len() {
            break;
        }
        let sl = d[j] as usize;
        j += 1 + sl;
        if j > d.len() {
            break;
        }
        let ty = (b0 >> 4) & 3;
        match ty {
            0 => flags |= 2,
            1 => flags |= 8,
            2 => flags |= 4,
            _ => {
                flags |= 16;
                break;
            }
        }
        let varint = |d: &[u8], j: usize| -> Option<(u64, usize)> {
            if j >= d.len() {
                return None;
            }
            let n = 1usize << (d[j] >> 6);
            if j + n > d.len() {
                return None;
            }
            let mut v = (d[j] & 0x3f) as u64;
            for k in 1..n {
                v = (v << 8) | d[j + k] as u64;
            }
            Some((v, n))
        };
        if ty == 0 {
            let Some((tl, n)) = varint(d, j) else { break };
            j += n + tl as usize;
        }
        let Some((len, n)) = varint(d, j) else { break };
        j += n + len as usize;
        if j <= i {
            break;
        }
        i = j;
        first = false;
    }
    flags
}

/// Twin runs for determinism / time-translation / spurious-call checks (C20): key 901 selects
/// how the SECOND run differs: 1 identical, 2 every instant shifted by 977_777_777 us,
/// 3 spurious handle_timeout/poll calls and early wake-ups added (driver choices use their own
/// PRNG stream, the network's choices are unchanged), 4 timers serviced late by up to 3 ms,
/// 5 a busy-polling driver (every microsecond while a deadline is at most 20 ms away).
/// Output: trace of run A, record [99], trace of run B.
pub fn run_case(ops: &[Vec<i128>]) -> Vec<Vec<i128>> {
    let p = P::from_ops(ops);
    let twin = p.get(901, 0);
    if twin == 0 {
        return run_one(ops);
    }
    let mut a = run_one(ops);
    let mut ops_b: Vec<Vec<i128>> = ops.to_vec();
    let extra: Vec<i128> = match twin {
        2 => vec![k::SHIFT_US, p.get(k::SHIFT_US, 0) + 977_777_777],
        3 => vec![k::SPURIOUS, 300, k::EARLY_POLL, 300],
        4 => vec![k::LATE_US, 3000],
        5 => vec![k::BUSY_NEAR_US, 20000],
        _ => vec![],
    };
    // later pairs override earlier ones
    ops_b.push(extra);
    let b = run_one(&ops_b);
    a.push(vec![99]);
    a.extend(b);
    a
}

fn run_one(ops: &[Vec<i128>]) -> Vec<Vec<i128>> {
    let mut w = World::new(P::from_ops(ops));
    // a panic inside the real endpoints is an outcome: keep the trace up to it, then record 16
    let r = std::panic::catch_unwind(std::panic::AssertUnwindSafe(|| w.run()));
    if r.is_err() {
        let t = w.now as i128;
        w.trace.push(vec![16, t, 1]);
    }
    w.trace
}
