//! asyncsim — the real `quinn` crate on a deterministic single-threaded executor (C18).
//! Owned by the C18 builder; `run_case` receives one case (list of ops) and returns the trace.
pub fn run_case(_ops: &[Vec<i128>]) -> Vec<Vec<i128>> {
    vec![vec![-1]]
}
