//! asyncsim — the REAL `quinn` crate on a deterministic single-threaded executor (C18).
//!
//! One client endpoint (10.0.0.1:40000) and one server endpoint (10.0.0.2:4433) built with
//! `Endpoint::new_with_abstract_socket` on an in-memory `AsyncUdpSocket` pair joined by a seeded
//! lossy / duplicating / reordering virtual network; a custom `quinn::Runtime` (virtual `now()`,
//! `AsyncTimer`s on the virtual clock, `spawn` onto our run queue). A seeded scheduler repeatedly
//! picks ONE runnable task (endpoint drivers, connection drivers, scripted application tasks) and
//! polls it once with a waker that marks the task runnable. Virtual time advances to the next
//! timer / packet delivery only when nothing is runnable. Application tasks are small scripted
//! futures; every quinn operation they await goes through `op!`, which may DROP the pending
//! future at a poll boundary (cancellation) and later create a fresh one continuing the job.
//! When nothing is runnable and nothing is scheduled the run is QUIESCENT: every task still alive
//! is polled once more ("forced"); an operation that completes in a forced poll had its wake-up
//! lost. Parameters and record layouts: TRACE.md, section "asyncsim".
use crate::sim::{Rng, P};
use bytes::Bytes;
use quinn::{
    AsyncTimer, AsyncUdpSocket, ClientConfig, Connection, ConnectionError, Endpoint,
    EndpointConfig, IdleTimeout, ReadError, RecvStream, Runtime, SendStream, ServerConfig,
    TransportConfig, UdpSender, VarInt, WriteError,
};
use std::cell::{Cell, RefCell};
use std::collections::{BTreeMap, VecDeque};
use std::future::Future;
use std::io::{self, IoSliceMut};
use std::net::{IpAddr, Ipv4Addr, SocketAddr};
use std::pin::Pin;
use std::rc::Rc;
use std::sync::atomic::{AtomicBool, AtomicI64, AtomicU64, Ordering};
use std::sync::{Arc, Mutex};
use std::task::{Context, Poll, Wake, Waker};
use std::time::{Duration, Instant};

pub mod k {
    pub const SEED: i128 = 1;
    pub const LOSS: i128 = 2;
    pub const DUP: i128 = 3;
    pub const DELAY_MIN: i128 = 4;
    pub const DELAY_MAX: i128 = 5;
    pub const NBIDI: i128 = 9;
    pub const NUNI: i128 = 10;
    pub const STREAM_BYTES: i128 = 11;
    pub const WRITE_CHUNK: i128 = 12;
    pub const READ_MAX: i128 = 13;
    pub const READ_MODE: i128 = 14; // 0 read(buf) 1 read_chunk 2 read_to_end (never cancelled) 3 read_chunks
    pub const NDGRAM: i128 = 15;
    pub const DGRAM_SIZE: i128 = 16;
    pub const ECHO_BYTES: i128 = 17;
    pub const CANCEL: i128 = 18; // per mille: drop a pending cancel-safe future at a poll boundary
    pub const END_MODE: i128 = 19; // 0 client close() 1 client drops every handle 2 server close() 3 server Endpoint::close 4 client Endpoint::close
    pub const IDLE_MS: i128 = 20; // 0 = no idle timeout
    pub const SEND_WINDOW: i128 = 24;
    pub const STREAM_RWND: i128 = 25;
    pub const RWND: i128 = 26;
    pub const MAX_BIDI: i128 = 27;
    pub const MAX_UNI: i128 = 28;
    pub const NACCEPTORS: i128 = 30;
    pub const WRITE_MODE: i128 = 31; // 0 write loop 1 write_all (never cancelled) 2 write_chunks loop
    pub const STOPPED_WAIT: i128 = 32; // 0 no 1 stopped() after finish 2 reset() then stopped() (known class)
    pub const HANG_OPS: i128 = 33; // bit mask of client tasks blocked until the connection closes
    pub const SEND_BLOCK: i128 = 34; // per mille: the socket reports back-pressure
    pub const DGRAM_SEND_BUF: i128 = 35;
    pub const READ_DELAY_US: i128 = 36; // server readers sleep before every read
    pub const STOP_AT: i128 = 37; // server reader of the first uni stream stops after that many bytes
    pub const RESET_AT: i128 = 38; // writer of the first uni stream resets after that many bytes
    pub const SPURIOUS: i128 = 39; // per mille: poll a task that was not woken
    pub const CLOSE_AT_US: i128 = 40; // > 0: END_MODE action at that time even if jobs are running
    pub const IOERR_AFTER: i128 = 41; // >= 0: the client's socket fails every send after that many
    pub const IMPLICIT_FINISH: i128 = 42; // 1: writers of uni streams drop the SendStream instead of calling finish()
    pub const STOP_BY_DROP: i128 = 43; // 1: at STOP_AT the reader drops the RecvStream instead of calling stop()
    pub const ZRTT: i128 = 44; // 0 none; 1 accepted / 2 rejected 0-RTT: warm-up connection, then a second one with into_0rtt()
    pub const STOP_EVERY: i128 = 45; // 1: STOP_AT applies to every uni stream, not only the first
    pub const EARLY_BYTES: i128 = 46; // bytes written on each early (0-RTT) stream
    pub const RESET_EVERY: i128 = 47; // 1: RESET_AT applies to every uni writer, not only the first
    pub const RECV_RESET_MODE: i128 = 48; // 1: server readers of uni streams await received_reset() instead of reading
    pub const RESET_POLL_DELAY_US: i128 = 49; // ... after sleeping that long (the reset has arrived, the driver is idle)
    pub const RESET_HOLD_US: i128 = 50; // ... and keep the RecvStream that long afterwards
    pub const MAX_TIME: i128 = 52;
}

// operation kinds (field `opkind`)
pub const O_CONNECT: i128 = 1;
pub const O_EP_ACCEPT: i128 = 2;
pub const O_OPEN_UNI: i128 = 3;
pub const O_OPEN_BI: i128 = 4;
pub const O_ACCEPT_UNI: i128 = 5;
pub const O_ACCEPT_BI: i128 = 6;
pub const O_READ: i128 = 7;
pub const O_WRITE: i128 = 8;
pub const O_STOPPED: i128 = 9;
pub const O_READ_DGRAM: i128 = 10;
pub const O_SEND_DGRAM: i128 = 11;
pub const O_CLOSED: i128 = 12;
pub const O_WAIT_IDLE: i128 = 13;
pub const O_READ_TO_END: i128 = 14;
pub const O_WRITE_ALL: i128 = 15;
pub const O_HS_CONFIRMED: i128 = 16;
pub const O_STOPPED_DETACHED: i128 = 17;
pub const O_AUTH: i128 = 18;
pub const O_RECV_RESET: i128 = 19;
pub const O_SLEEP: i128 = 90;
pub const O_INTERNAL: i128 = 91;

// ------------------------------------------------------------------------------------------
// shared simulation state
struct Pkt {
    at: u64,
    seq: u64,
    dst: usize,
    src: SocketAddr,
    data: Vec<u8>,
}
struct SockSt {
    addr: SocketAddr,
    inbox: VecDeque<(SocketAddr, Vec<u8>)>,
    rwaker: Option<Waker>,
    sends: u64,
}
struct Inner {
    net_rng: Rng,
    timers: BTreeMap<u64, (u64, Option<Waker>)>,
    next_timer: u64,
    net: Vec<Pkt>,
    seq: u64,
    socks: Vec<SockSt>,
    loss: i128,
    dup: i128,
    dmin: u64,
    dmax: u64,
    send_block: i128,
    ioerr_after: i128,
}
struct Sh {
    base: Instant,
    now: AtomicU64,
    cur: AtomicI64,
    opid: AtomicU64,
    trace: Mutex<Vec<Vec<i128>>>,
    inner: Mutex<Inner>,
}
impl Sh {
    fn t(&self) -> i128 {
        self.now.load(Ordering::Relaxed) as i128
    }
    fn log(&self, r: Vec<i128>) {
        self.trace.lock().unwrap().push(r);
    }
    fn us_of(&self, i: Instant) -> u64 {
        if i <= self.base {
            0
        } else {
            ((i.duration_since(self.base).as_nanos() + 999) / 1000) as u64
        }
    }
}

enum NewTask {
    Quinn(usize, Pin<Box<dyn Future<Output = ()> + Send>>),
    App(usize, Rc<TaskSt>, Rc<Cell<i128>>, Pin<Box<dyn Future<Output = ()>>>),
}
thread_local! {
    static NEWQ: RefCell<Vec<NewTask>> = RefCell::new(Vec::new());
}

// ------------------------------------------------------------------------------------------
// wakers
struct TaskWaker {
    id: usize,
    runnable: AtomicBool,
    sh: Arc<Sh>,
}
impl Wake for TaskWaker {
    fn wake(self: Arc<Self>) {
        self.wake_by_ref()
    }
    fn wake_by_ref(self: &Arc<Self>) {
        let was = self.runnable.swap(true, Ordering::Relaxed);
        let by = self.sh.cur.load(Ordering::Relaxed) as i128;
        self.sh.log(vec![21, self.sh.t(), self.id as i128, by, was as i128]);
    }
}

// ------------------------------------------------------------------------------------------
// Runtime, timers, sockets
#[derive(Debug)]
struct SimRuntime {
    ep: usize,
    sh: Arc<Sh>,
}
impl std::fmt::Debug for Sh {
    fn fmt(&self, f: &mut std::fmt::Formatter<'_>) -> std::fmt::Result {
        f.write_str("Sh")
    }
}
impl Runtime for SimRuntime {
    fn new_timer(&self, i: Instant) -> Pin<Box<dyn AsyncTimer>> {
        Box::pin(SimTimer::new(self.sh.clone(), self.sh.us_of(i)))
    }
    fn spawn(&self, future: Pin<Box<dyn Future<Output = ()> + Send>>) {
        NEWQ.with(|q| q.borrow_mut().push(NewTask::Quinn(self.ep, future)));
    }
    fn wrap_udp_socket(&self, _t: std::net::UdpSocket) -> io::Result<Box<dyn AsyncUdpSocket>> {
        Err(io::Error::other("unused"))
    }
    fn now(&self) -> Instant {
        self.sh.base + Duration::from_micros(self.sh.now.load(Ordering::Relaxed))
    }
}

#[derive(Debug)]
struct SimTimer {
    sh: Arc<Sh>,
    id: u64,
    deadline: u64,
}
impl SimTimer {
    fn new(sh: Arc<Sh>, deadline: u64) -> Self {
        let id = {
            let mut g = sh.inner.lock().unwrap();
            g.next_timer += 1;
            g.next_timer
        };
        SimTimer { sh, id, deadline }
    }
    fn poll_at(&mut self, cx: &mut Context<'_>) -> Poll<()> {
        let now = self.sh.now.load(Ordering::Relaxed);
        let mut g = self.sh.inner.lock().unwrap();
        if now >= self.deadline {
            g.timers.remove(&self.id);
            Poll::Ready(())
        } else {
            g.timers.insert(self.id, (self.deadline, Some(cx.waker().clone())));
            Poll::Pending
        }
    }
}
impl AsyncTimer for SimTimer {
    fn reset(mut self: Pin<&mut Self>, i: Instant) {
        self.deadline = self.sh.us_of(i);
        let (id, d) = (self.id, self.deadline);
        let mut g = self.sh.inner.lock().unwrap();
        if let Some(e) = g.timers.get_mut(&id) {
            e.0 = d;
        }
    }
    fn poll(mut self: Pin<&mut Self>, cx: &mut Context<'_>) -> Poll<()> {
        self.poll_at(cx)
    }
}
impl Drop for SimTimer {
    fn drop(&mut self) {
        if let Ok(mut g) = self.sh.inner.lock() {
            g.timers.remove(&self.id);
        }
    }
}
/// sleep of an application task on the virtual clock (0 = yield once)
struct Sleep {
    t: Option<SimTimer>,
    yielded: bool,
}
impl Future for Sleep {
    type Output = ();
    fn poll(mut self: Pin<&mut Self>, cx: &mut Context<'_>) -> Poll<()> {
        match self.t.as_mut() {
            Some(t) => t.poll_at(cx),
            None => {
                if self.yielded {
                    Poll::Ready(())
                } else {
                    self.yielded = true;
                    cx.waker().wake_by_ref();
                    Poll::Pending
                }
            }
        }
    }
}

#[derive(Debug)]
struct SimSocket {
    ep: usize,
    sh: Arc<Sh>,
}
#[derive(Debug)]
struct SimSender {
    ep: usize,
    sh: Arc<Sh>,
    blocked_once: bool,
}
impl AsyncUdpSocket for SimSocket {
    fn create_sender(&self) -> Pin<Box<dyn UdpSender>> {
        Box::pin(SimSender { ep: self.ep, sh: self.sh.clone(), blocked_once: false })
    }
    fn poll_recv(
        &mut self,
        cx: &mut Context<'_>,
        bufs: &mut [IoSliceMut<'_>],
        meta: &mut [quinn::udp::RecvMeta],
    ) -> Poll<io::Result<usize>> {
        let mut g = self.sh.inner.lock().unwrap();
        let s = &mut g.socks[self.ep];
        if s.inbox.is_empty() {
            s.rwaker = Some(cx.waker().clone());
            return Poll::Pending;
        }
        let mut n = 0;
        while n < bufs.len() && n < meta.len() {
            let Some((src, data)) = s.inbox.pop_front() else { break };
            let l = data.len().min(bufs[n].len());
            bufs[n][..l].copy_from_slice(&data[..l]);
            let mut m = quinn::udp::RecvMeta::default();
            m.addr = src;
            m.len = l;
            m.stride = l;
            m.ecn = None;
            m.dst_ip = None;
            meta[n] = m;
            n += 1;
        }
        Poll::Ready(Ok(n))
    }
    fn local_addr(&self) -> io::Result<SocketAddr> {
        Ok(self.sh.inner.lock().unwrap().socks[self.ep].addr)
    }
}
impl UdpSender for SimSender {
    fn poll_send(
        mut self: Pin<&mut Self>,
        tr: &quinn::udp::Transmit<'_>,
        cx: &mut Context<'_>,
    ) -> Poll<io::Result<()>> {
        let sh = self.sh.clone();
        let now = sh.now.load(Ordering::Relaxed);
        let mut g = sh.inner.lock().unwrap();
        let (sb, loss, dup) = (g.send_block, g.loss, g.dup);
        if sb > 0 && !self.blocked_once && g.net_rng.chance(sb) {
            // back-pressure: Pending now, writable again 50 us later
            self.blocked_once = true;
            g.next_timer += 1;
            let id = g.next_timer;
            g.timers.insert(id, (now + 50, Some(cx.waker().clone())));
            drop(g);
            sh.log(vec![31, now as i128, 8, self.ep as i128, -1, tr.contents.len() as i128]);
            return Poll::Pending;
        }
        self.blocked_once = false;
        let ep = self.ep;
        g.socks[ep].sends += 1;
        if g.ioerr_after >= 0 && ep == 0 && g.socks[ep].sends as i128 > g.ioerr_after {
            drop(g);
            sh.log(vec![31, now as i128, 9, ep as i128, -1, tr.contents.len() as i128]);
            return Poll::Ready(Err(io::Error::new(io::ErrorKind::PermissionDenied, "injected")));
        }
        let src = g.socks[ep].addr;
        let dst = g.socks.iter().position(|s| s.addr == tr.destination);
        let seg = tr.segment_size.unwrap_or(tr.contents.len()).max(1);
        let mut recs = Vec::new();
        for chunk in tr.contents.chunks(seg) {
            let Some(dst) = dst else {
                recs.push(vec![31, now as i128, 4, ep as i128, -1, chunk.len() as i128]);
                continue;
            };
            if g.net_rng.chance(loss) {
                recs.push(vec![31, now as i128, 1, ep as i128, dst as i128, chunk.len() as i128]);
                continue;
            }
            let copies = if g.net_rng.chance(dup) { 2 } else { 1 };
            for c in 0..copies {
                let span = g.dmax.saturating_sub(g.dmin);
                let d = g.dmin + if span > 0 { g.net_rng.below(span + 1) } else { 0 };
                g.seq += 1;
                let seq = g.seq;
                g.net.push(Pkt { at: now + d, seq, dst, src, data: chunk.to_vec() });
                recs.push(vec![31, now as i128, if c == 0 { 0 } else { 2 }, ep as i128, dst as i128, chunk.len() as i128]);
            }
        }
        drop(g);
        for r in recs {
            sh.log(r);
        }
        Poll::Ready(Ok(()))
    }
}

// ------------------------------------------------------------------------------------------
// application side: task context and the cancellable-operation wrapper
pub struct TaskSt {
    cur_op: Cell<(i128, i128, i128)>, // (opid, kind, sid) the task is pending on; opid -1 = none
    forced: Cell<bool>,
    progressed: Cell<bool>,
    last_op: Cell<i128>,
    rng: RefCell<Rng>,
    cancel_pm: i128,
}
#[derive(Clone)]
struct Ctx {
    sh: Arc<Sh>,
    task: Rc<Cell<i128>>,
    ep: usize,
    st: Rc<TaskSt>,
    w: Rc<World>,
}
impl Ctx {
    fn tid(&self) -> i128 {
        self.task.get()
    }
    fn fut_new(&self, opid: i128, kind: i128, sid: i128) {
        self.sh.log(vec![22, self.sh.t(), self.tid(), self.ep as i128, opid, kind, sid]);
    }
    fn op_done(&self, opid: i128, kind: i128, sid: i128) {
        self.st.cur_op.set((-1, 0, -1));
        self.st.last_op.set(opid);
        self.sh.log(vec![23, self.sh.t(), self.tid(), self.ep as i128, opid, kind, sid, self.st.forced.get() as i128]);
    }
    /// result of the last completed operation: [32,t,task,opid,result,a,b,content_ok]
    fn res(&self, result: i128, a: i128, b: i128, ok: bool) {
        self.sh.log(vec![32, self.sh.t(), self.tid(), self.st.last_op.get(), result, a, b, ok as i128]);
    }
    fn fut_dropped(&self, opid: i128, kind: i128, sid: i128) -> u64 {
        self.st.cur_op.set((-1, 0, -1));
        let d = [0u64, 0, 300, 5_000, 40_000][self.st.rng.borrow_mut().below(5) as usize];
        self.sh.log(vec![24, self.sh.t(), self.tid(), self.ep as i128, opid, kind, sid, d as i128]);
        d
    }
    /// handle accounting: what 1 Connection/Connecting 2 SendStream 3 RecvStream 4 Endpoint
    fn h_new(&self, what: i128, sid: i128) {
        self.sh.log(vec![25, self.sh.t(), self.tid(), self.ep as i128, what, sid, 1]);
    }
    fn h_drop(&self, what: i128, sid: i128) {
        self.sh.log(vec![25, self.sh.t(), self.tid(), self.ep as i128, what, sid, 0]);
    }
    fn sleep(&self, us: u64) -> Sleep {
        if us == 0 {
            Sleep { t: None, yielded: false }
        } else {
            let d = self.sh.now.load(Ordering::Relaxed) + us;
            Sleep { t: Some(SimTimer::new(self.sh.clone(), d)), yielded: false }
        }
    }
    fn spawn<F: Future<Output = ()> + 'static>(&self, mk: impl FnOnce(Ctx) -> F) {
        self.spawn_ep(self.ep, mk)
    }
    /// spawn a task that belongs to (virtual) endpoint `ep` = endpoint + 2 * connection index
    fn spawn_ep<F: Future<Output = ()> + 'static>(&self, ep: usize, mk: impl FnOnce(Ctx) -> F) {
        let st = Rc::new(TaskSt {
            cur_op: Cell::new((-1, 0, -1)),
            forced: Cell::new(false),
            progressed: Cell::new(false),
            last_op: Cell::new(-1),
            rng: RefCell::new(Rng::new(self.st.rng.borrow_mut().next())),
            cancel_pm: self.st.cancel_pm,
        });
        let cx = Ctx { sh: self.sh.clone(), task: Rc::new(Cell::new(-1)), ep, st: st.clone(), w: self.w.clone() };
        let cell = cx.task.clone();
        let fut = mk(cx);
        NEWQ.with(|q| q.borrow_mut().push(NewTask::App(ep, st, cell, Box::pin(fut))));
    }
}
struct PollOrCancel<'a, F: Future> {
    fut: Pin<&'a mut F>,
    cx: &'a Ctx,
    cancel: bool,
    op: (i128, i128, i128),
    born_forced: bool,
}
impl<F: Future> Future for PollOrCancel<'_, F> {
    type Output = Option<F::Output>;
    fn poll(mut self: Pin<&mut Self>, c: &mut Context<'_>) -> Poll<Self::Output> {
        // quiescence check: replace the old future by a FRESH one of the same operation (several
        // quinn futures re-check their condition only when their Notified fires)
        if self.cancel && self.cx.st.forced.get() && !self.born_forced {
            return Poll::Ready(None);
        }
        match self.fut.as_mut().poll(c) {
            Poll::Ready(v) => {
                self.cx.st.progressed.set(true);
                Poll::Ready(Some(v))
            }
            Poll::Pending => {
                let st = &self.cx.st;
                if self.cancel && !st.forced.get() && st.cancel_pm > 0 && st.rng.borrow_mut().chance(st.cancel_pm) {
                    return Poll::Ready(None);
                }
                st.cur_op.set(self.op);
                Poll::Pending
            }
        }
    }
}

macro_rules! op {
    ($cx:expr, $kind:expr, $sid:expr, $cancel:expr, $mk:expr) => {{
        let opid = $cx.sh.opid.fetch_add(1, Ordering::Relaxed) as i128;
        loop {
            $cx.fut_new(opid, $kind, $sid);
            let r = {
                let fut = $mk;
                let mut fut = std::pin::pin!(fut);
                PollOrCancel { fut: fut.as_mut(), cx: &$cx, cancel: $cancel, op: (opid, $kind, $sid), born_forced: $cx.st.forced.get() }.await
            };
            match r {
                Some(v) => {
                    $cx.op_done(opid, $kind, $sid);
                    break v;
                }
                None if $cx.st.forced.get() => {
                    $cx.st.cur_op.set((-1, 0, -1));
                    $cx.sh.log(vec![24, $cx.sh.t(), $cx.tid(), $cx.ep as i128, opid, $kind, $sid, -1]);
                }
                None => {
                    let d = $cx.fut_dropped(opid, $kind, $sid);
                    $cx.st.cur_op.set((-2, O_SLEEP, -1));
                    $cx.sleep(d).await;
                    $cx.st.cur_op.set((-1, 0, -1));
                }
            }
        }
    }};
}

// harness-internal synchronisation (not under test)
struct Slot<T> {
    v: RefCell<Option<T>>,
    failed: Cell<bool>,
    wakers: RefCell<Vec<Waker>>,
}
impl<T: Clone> Slot<T> {
    fn new() -> Self {
        Slot { v: RefCell::new(None), failed: Cell::new(false), wakers: RefCell::new(Vec::new()) }
    }
    fn set(&self, v: Option<T>) {
        if v.is_none() {
            self.failed.set(true);
        }
        *self.v.borrow_mut() = v;
        for w in self.wakers.borrow_mut().drain(..) {
            w.wake();
        }
    }
    fn clear(&self) {
        *self.v.borrow_mut() = None;
        self.failed.set(true);
    }
    async fn get(&self, cx: &Ctx) -> Option<T> {
        cx.st.cur_op.set((-2, O_INTERNAL, -1));
        let r = std::future::poll_fn(|c| {
            if let Some(v) = self.v.borrow().as_ref() {
                return Poll::Ready(Some(v.clone()));
            }
            if self.failed.get() {
                return Poll::Ready(None);
            }
            self.wakers.borrow_mut().push(c.waker().clone());
            Poll::Pending
        })
        .await;
        cx.st.cur_op.set((-1, 0, -1));
        r
    }
}
struct Counter {
    n: Cell<i64>,
    wakers: RefCell<Vec<Waker>>,
}
impl Counter {
    fn done(&self) {
        self.n.set(self.n.get() - 1);
        if self.n.get() <= 0 {
            for w in self.wakers.borrow_mut().drain(..) {
                w.wake();
            }
        }
    }
    async fn wait(&self, cx: &Ctx, deadline: Option<u64>) {
        cx.st.cur_op.set((-2, O_INTERNAL, -1));
        let mut timer = deadline.map(|d| SimTimer::new(cx.sh.clone(), d));
        std::future::poll_fn(|c| {
            if self.n.get() <= 0 {
                return Poll::Ready(());
            }
            if let Some(t) = timer.as_mut() {
                if t.poll_at(c).is_ready() {
                    return Poll::Ready(());
                }
            }
            self.wakers.borrow_mut().push(c.waker().clone());
            Poll::Pending
        })
        .await;
        cx.st.cur_op.set((-1, 0, -1));
    }
}

struct World {
    p: P,
    conn: [Slot<Connection>; 2],
    jobs: Counter,
    echoes: Counter,
    zr_srv: Counter,   // server: connection handlers still running
    zr_gate: Counter,  // client waits until the server is ready for the second connection
    zr_acc: Counter,   // server: the spawned handler has called Incoming::accept
    zr_cli: Counter,   // client: helper tasks of the second connection still running
    saddr: SocketAddr,
}

pub fn pattern(sid: u64, off: u64, salt: u64) -> u8 {
    let x = sid.wrapping_mul(0x9E3779B97F4A7C15) ^ off.wrapping_mul(0xC2B2AE3D27D4EB4F) ^ salt.wrapping_mul(0x165667B19E3779F9);
    ((x >> 29) ^ (x >> 7) ^ x) as u8
}
fn sid_of(s: quinn::StreamId) -> i128 {
    u64::from(s) as i128
}
fn conn_err(e: &ConnectionError) -> i128 {
    match e {
        ConnectionError::VersionMismatch => 1,
        ConnectionError::TransportError(_) => 2,
        ConnectionError::ConnectionClosed(_) => 3,
        ConnectionError::ApplicationClosed(_) => 4,
        ConnectionError::Reset => 5,
        ConnectionError::TimedOut => 6,
        ConnectionError::LocallyClosed => 7,
        ConnectionError::CidsExhausted => 8,
    }
}

// --- jobs -------------------------------------------------------------------------------------
/// write `total` pattern bytes; result records: write [result 0 ok, a = offset, b = n] / errors
/// 10+conn error, 20 stopped, 21 closed stream, 22 0-RTT rejected
async fn write_job(cx: &Ctx, send: &mut SendStream, sid: i128, total: usize, salt: u64, reset_at: i128) -> bool {
    let p = &cx.w.p;
    let chunk = (p.get(k::WRITE_CHUNK, 1000) as usize).max(1);
    let mode = p.get(k::WRITE_MODE, 0);
    let data: Vec<u8> = (0..total).map(|o| pattern(sid as u64, o as u64, salt)).collect();
    let werr = |e: &WriteError| match e {
        WriteError::ConnectionLost(c) => 10 + conn_err(c),
        WriteError::Stopped(_) => 20,
        WriteError::ClosedStream => 21,
        WriteError::ZeroRttRejected => 22,
    };
    let mut off = 0usize;
    while off < total {
        if reset_at >= 0 && off as i128 >= reset_at {
            return false;
        }
        let end = (off + chunk).min(total);
        match mode {
            1 => {
                let r = op!(cx, O_WRITE_ALL, sid, false, send.write_all(&data[off..end]));
                match r {
                    Ok(()) => {
                        cx.res(0, off as i128, (end - off) as i128, true);
                        off = end;
                    }
                    Err(e) => {
                        cx.res(werr(&e), off as i128, 0, true);
                        return false;
                    }
                }
            }
            2 => {
                let mut bufs = [Bytes::copy_from_slice(&data[off..end])];
                let r = op!(cx, O_WRITE, sid, true, send.write_chunks(&mut bufs));
                match r {
                    Ok(w) => {
                        cx.res(0, off as i128, w.bytes as i128, true);
                        off += w.bytes;
                    }
                    Err(e) => {
                        cx.res(werr(&e), off as i128, 0, true);
                        return false;
                    }
                }
            }
            _ => {
                let r = op!(cx, O_WRITE, sid, true, send.write(&data[off..end]));
                match r {
                    Ok(n) => {
                        cx.res(0, off as i128, n as i128, true);
                        off += n;
                    }
                    Err(e) => {
                        cx.res(werr(&e), off as i128, 0, true);
                        return false;
                    }
                }
            }
        }
    }
    true
}

/// read until the end; records: read [0, offset, n, content_ok], end [1, total, 0], errors 10+conn,
/// 20 reset, 21 closed stream, 22 illegal ordered read, 23 0-RTT, 24 too long
async fn read_job(cx: &Ctx, recv: &mut RecvStream, sid: i128, salt: u64, stop_at: i128, delay: u64) -> i128 {
    let p = &cx.w.p;
    let mode = p.get(k::READ_MODE, 0);
    let max = (p.get(k::READ_MAX, 4096) as usize).max(1);
    let rerr = |e: &ReadError| match e {
        ReadError::ConnectionLost(c) => 10 + conn_err(c),
        ReadError::Reset(_) => 20,
        ReadError::ClosedStream => 21,
        ReadError::IllegalOrderedRead => 22,
        ReadError::ZeroRttRejected => 23,
    };
    let check = |off: usize, b: &[u8]| b.iter().enumerate().all(|(i, x)| *x == pattern(sid as u64, (off + i) as u64, salt));
    let mut off = 0usize;
    if mode == 2 {
        let r = op!(cx, O_READ_TO_END, sid, false, recv.read_to_end(1 << 24));
        return match r {
            Ok(v) => {
                cx.res(0, 0, v.len() as i128, check(0, &v));
                cx.res(1, v.len() as i128, 0, true);
                v.len() as i128
            }
            Err(quinn::ReadToEndError::Read(e)) => {
                cx.res(rerr(&e), 0, 0, true);
                -1
            }
            Err(quinn::ReadToEndError::TooLong) => {
                cx.res(24, 0, 0, true);
                -1
            }
        };
    }
    let mut buf = vec![0u8; max];
    loop {
        if stop_at >= 0 && off as i128 >= stop_at && p.get(k::STOP_BY_DROP, 0) == 1 {
            return off as i128; // the caller drops the handle: implicit stop(0)
        }
        if stop_at >= 0 && off as i128 >= stop_at {
            let r = recv.stop(VarInt::from_u32(7));
            cx.sh.log(vec![35, cx.sh.t(), cx.tid(), sid, r.is_ok() as i128]);
            return off as i128;
        }
        if delay > 0 {
            cx.st.cur_op.set((-2, O_SLEEP, -1));
            cx.sleep(delay).await;
            cx.st.cur_op.set((-1, 0, -1));
        }
        let got: Result<Option<Vec<u8>>, ReadError> = match mode {
            1 => op!(cx, O_READ, sid, true, recv.read_chunk(max, true)).map(|o| o.map(|c| c.bytes.to_vec())),
            3 => {
                let mut bufs = [Bytes::new(), Bytes::new(), Bytes::new()];
                let r = op!(cx, O_READ, sid, true, recv.read_chunks(&mut bufs));
                r.map(|o| o.map(|n| bufs[..n].iter().flat_map(|b| b.iter().copied()).collect()))
            }
            _ => {
                let r = op!(cx, O_READ, sid, true, recv.read(&mut buf));
                r.map(|o| o.map(|n| buf[..n].to_vec()))
            }
        };
        match got {
            Ok(Some(b)) => {
                cx.res(0, off as i128, b.len() as i128, check(off, &b));
                off += b.len();
            }
            Ok(None) => {
                cx.res(1, off as i128, 0, true);
                return off as i128;
            }
            Err(e) => {
                cx.res(rerr(&e), off as i128, 0, true);
                return -1;
            }
        }
    }
}

async fn client_uni(cx: Ctx, i: usize) {
    let p = &cx.w.p;
    let Some(conn) = cx.w.conn[0].get(&cx).await else {
        cx.w.jobs.done();
        return;
    };
    cx.h_new(1, -1);
    let r = op!(cx, O_OPEN_UNI, -1, true, conn.open_uni());
    match r {
        Ok(mut send) => {
            let sid = sid_of(send.id());
            cx.h_new(2, sid);
            cx.res(0, sid, 0, true);
            let total = p.get(k::STREAM_BYTES, 5000) as usize;
            let reset_at = if i == 0 || p.get(k::RESET_EVERY, 0) == 1 { p.get(k::RESET_AT, -1) } else { -1 };
            let ok = write_job(&cx, &mut send, sid, total, 1, reset_at).await;
            let sw = p.get(k::STOPPED_WAIT, 1);
            if ok && p.get(k::IMPLICIT_FINISH, 0) == 1 {
                // the stopped() future is 'static: take it, then drop the handle WITHOUT finish()
                let mut st = Box::pin(send.stopped());
                cx.h_new(1, -1); // the future holds a ConnectionRef
                cx.sh.log(vec![36, cx.sh.t(), cx.tid(), sid, 1, total as i128]);
                cx.h_drop(2, sid);
                drop(send);
                let r = op!(cx, O_STOPPED_DETACHED, sid, false, &mut st);
                match r {
                    Ok(None) => cx.res(0, 0, 0, true),
                    Ok(Some(c)) => cx.res(1, c.into_inner() as i128, 0, true),
                    Err(quinn::StoppedError::ConnectionLost(e)) => cx.res(10 + conn_err(&e), 0, 0, true),
                    Err(quinn::StoppedError::ZeroRttRejected) => cx.res(23, 0, 0, true),
                }
                cx.h_drop(1, -1);
                drop(st);
                cx.w.jobs.done();
                cx.h_drop(1, -1);
                drop(conn);
                return;
            }
            if ok {
                let r = send.finish();
                cx.sh.log(vec![36, cx.sh.t(), cx.tid(), sid, r.is_ok() as i128, total as i128]);
            } else if reset_at >= 0 || sw == 2 {
                let r = send.reset(VarInt::from_u32(9));
                cx.sh.log(vec![37, cx.sh.t(), cx.tid(), sid, r.is_ok() as i128]);
            }
            if sw == 2 && ok {
                // known class: reset() a finished-but-unacknowledged stream, then wait for stopped()
                let r = send.reset(VarInt::from_u32(9));
                cx.sh.log(vec![37, cx.sh.t(), cx.tid(), sid, r.is_ok() as i128]);
            }
            if sw > 0 {
                let r = op!(cx, O_STOPPED, sid, true, send.stopped());
                match r {
                    Ok(None) => cx.res(0, 0, 0, true),
                    Ok(Some(c)) => cx.res(1, c.into_inner() as i128, 0, true),
                    Err(quinn::StoppedError::ConnectionLost(e)) => cx.res(10 + conn_err(&e), 0, 0, true),
                    Err(quinn::StoppedError::ZeroRttRejected) => cx.res(23, 0, 0, true),
                }
            }
            cx.h_drop(2, sid);
            drop(send);
        }
        Err(e) => cx.res(10 + conn_err(&e), -1, 0, true),
    }
    cx.w.jobs.done();
    cx.h_drop(1, -1);
    drop(conn);
}

async fn client_bi(cx: Ctx, _i: usize) {
    let p = &cx.w.p;
    let Some(conn) = cx.w.conn[0].get(&cx).await else {
        cx.w.jobs.done();
        return;
    };
    cx.h_new(1, -1);
    let r = op!(cx, O_OPEN_BI, -1, true, conn.open_bi());
    match r {
        Ok((mut send, mut recv)) => {
            let sid = sid_of(send.id());
            cx.h_new(2, sid);
            cx.h_new(3, sid);
            cx.res(0, sid, 0, true);
            let total = p.get(k::STREAM_BYTES, 5000) as usize;
            if write_job(&cx, &mut send, sid, total, 1, -1).await {
                let r = send.finish();
                cx.sh.log(vec![36, cx.sh.t(), cx.tid(), sid, r.is_ok() as i128, total as i128]);
            }
            cx.h_drop(2, sid);
            drop(send);
            read_job(&cx, &mut recv, sid, 2, -1, 0).await;
            cx.h_drop(3, sid);
            drop(recv);
        }
        Err(e) => cx.res(10 + conn_err(&e), -1, 0, true),
    }
    cx.w.jobs.done();
    cx.h_drop(1, -1);
    drop(conn);
}

async fn dgram_sender(cx: Ctx) {
    let p = &cx.w.p;
    let Some(conn) = cx.w.conn[0].get(&cx).await else {
        cx.w.jobs.done();
        return;
    };
    cx.h_new(1, -1);
    let n = p.get(k::NDGRAM, 0);
    let size = (p.get(k::DGRAM_SIZE, 100) as usize).max(8);
    for i in 0..n {
        let mut d = vec![0u8; size];
        d[..8].copy_from_slice(&(i as u64).to_be_bytes());
        for (j, b) in d.iter_mut().enumerate().skip(8) {
            *b = pattern(1 << 40, (i as u64) * 65536 + j as u64, 3);
        }
        let r = op!(cx, O_SEND_DGRAM, i, true, conn.send_datagram_wait(Bytes::from(d.clone())));
        match r {
            Ok(()) => cx.res(0, i, size as i128, true),
            Err(quinn::SendDatagramError::ConnectionLost(e)) => {
                cx.res(10 + conn_err(&e), i, 0, true);
                break;
            }
            Err(_) => {
                cx.res(30, i, 0, true);
                break;
            }
        }
    }
    if p.get(k::LOSS, 0) == 0 && p.get(k::DGRAM_SEND_BUF, 0) == 0 && p.get(k::DELAY_MAX, 0) <= p.get(k::DELAY_MIN, 5000) {
        // loss-free FIFO link (no spurious loss detection either): every datagram comes back; wait for the echoes (or the close)
        cx.w.echoes.n.set(cx.w.echoes.n.get() + n as i64);
        cx.w.echoes.wait(&cx, None).await;
    }
    cx.w.jobs.done();
    cx.h_drop(1, -1);
    drop(conn);
}

/// reads datagrams until the connection closes; the server echoes them back
async fn dgram_reader(cx: Ctx, side: usize, echo: bool) {
    let Some(conn) = cx.w.conn[side].get(&cx).await else { return };
    cx.h_new(1, -1);
    loop {
        let r = op!(cx, O_READ_DGRAM, -1, true, conn.read_datagram());
        match r {
            Ok(b) => {
                let id = if b.len() >= 8 { u64::from_be_bytes(b[..8].try_into().unwrap()) } else { u64::MAX };
                let ok = b.iter().enumerate().skip(8).all(|(j, x)| *x == pattern(1 << 40, id.wrapping_mul(65536) + j as u64, 3));
                cx.res(0, id as i128, b.len() as i128, ok);
                if !echo {
                    cx.w.echoes.done();
                }
                if echo {
                    let r = conn.send_datagram(b);
                    cx.sh.log(vec![38, cx.sh.t(), cx.tid(), id as i128, r.is_ok() as i128]);
                }
            }
            Err(e) => {
                cx.res(10 + conn_err(&e), -1, 0, true);
                if !echo {
                    cx.w.echoes.n.set(i64::MIN / 2);
                    cx.w.echoes.done();
                }
                break;
            }
        }
    }
    cx.h_drop(1, -1);
    drop(conn);
}

/// tasks that stay blocked until the connection closes (bit of HANG_OPS)
async fn hang_task(cx: Ctx, bit: i128) {
    let Some(conn) = cx.w.conn[0].get(&cx).await else { return };
    cx.h_new(1, -1);
    match bit {
        1 => {
            let r = op!(cx, O_ACCEPT_BI, -1, true, conn.accept_bi());
            match r {
                Ok(_) => cx.res(0, 0, 0, false),
                Err(e) => cx.res(10 + conn_err(&e), -1, 0, true),
            }
        }
        2 => {
            let r = op!(cx, O_ACCEPT_UNI, -1, true, conn.accept_uni());
            match r {
                Ok(_) => cx.res(0, 0, 0, false),
                Err(e) => cx.res(10 + conn_err(&e), -1, 0, true),
            }
        }
        4 => {
            let e = op!(cx, O_CLOSED, -1, true, conn.closed());
            cx.res(10 + conn_err(&e), -1, 0, true);
        }
        8 => {
            // a bidirectional stream the server never answers on: read blocks until close
            let r = op!(cx, O_OPEN_BI, -1, true, conn.open_bi());
            if let Ok((send, mut recv)) = r {
                let sid = sid_of(send.id());
                cx.h_new(2, sid);
                cx.h_new(3, sid);
                cx.res(0, sid, 1, true);
                let mut buf = [0u8; 16];
                let r = op!(cx, O_READ, sid, true, recv.read(&mut buf));
                match r {
                    Ok(_) => cx.res(0, 0, 0, false),
                    Err(ReadError::ConnectionLost(e)) => cx.res(10 + conn_err(&e), 0, 0, true),
                    Err(_) => cx.res(21, 0, 0, true),
                }
                cx.h_drop(2, sid);
                drop(send);
                cx.h_drop(3, sid);
                drop(recv);
            } else if let Err(e) = r {
                cx.res(10 + conn_err(&e), -1, 0, true);
            }
        }
        16 => {
            let r = op!(cx, O_HS_CONFIRMED, -1, true, conn.handshake_confirmed());
            match r {
                Ok(()) => cx.res(0, 0, 0, true),
                Err(e) => cx.res(10 + conn_err(&e), -1, 0, true),
            }
            let e = op!(cx, O_CLOSED, -1, true, conn.closed());
            cx.res(10 + conn_err(&e), -1, 0, true);
        }
        _ => {}
    }
    cx.h_drop(1, -1);
    drop(conn);
}

fn ep_state(cx: &Ctx, ep: &Endpoint) {
    let mut r = vec![28, cx.sh.t(), cx.ep as i128];
    r.extend(ep.verif_snapshot());
    cx.sh.log(r);
}

async fn client_main(cx: Ctx, ep: Endpoint) {
    let p = &cx.w.p;
    cx.h_new(4, -1);
    let connecting = ep.connect(cx.w.saddr, "localhost");
    let mut connecting = match connecting {
        Ok(c) => c,
        Err(_) => {
            cx.w.conn[0].set(None);
            cx.h_drop(4, -1);
            return;
        }
    };
    cx.h_new(1, -1);
    PROBES.with(|q| q.borrow_mut().push((0, connecting.verif_probe().unwrap())));
    let r = op!(cx, O_CONNECT, -1, false, &mut connecting);
    drop(connecting);
    let mut conn = None;
    match r {
        Ok(c) => {
            cx.res(0, 0, 0, true);
            cx.w.conn[0].set(Some(c.clone()));
            cx.h_new(1, -1); // the clone kept in the slot
            conn = Some(c);
        }
        Err(e) => {
            cx.res(10 + conn_err(&e), 0, 0, true);
            cx.h_drop(1, -1);
            cx.w.conn[0].set(None);
        }
    }
    let close_at = p.get(k::CLOSE_AT_US, 0);
    cx.w.jobs.wait(&cx, if close_at > 0 { Some(close_at as u64) } else { None }).await;
    // the slot's clone goes away first: from now on late job tasks find no connection
    if conn.is_some() {
        cx.w.conn[0].clear();
        cx.h_drop(1, -1);
    }
    let mode = p.get(k::END_MODE, 0);
    if let Some(c) = conn {
        match mode {
            0 => {
                cx.sh.log(vec![39, cx.sh.t(), cx.tid(), 0, 0]);
                c.close(VarInt::from_u32(0), b"done");
                cx.h_drop(1, -1);
                drop(c);
            }
            1 => {
                cx.sh.log(vec![39, cx.sh.t(), cx.tid(), 0, 1]);
                cx.h_drop(1, -1);
                drop(c);
            }
            4 => {
                cx.sh.log(vec![39, cx.sh.t(), cx.tid(), 0, 4]);
                ep.close(VarInt::from_u32(4), b"ep");
                let e = op!(cx, O_CLOSED, -1, true, c.closed());
                cx.res(10 + conn_err(&e), -1, 0, true);
                cx.h_drop(1, -1);
                drop(c);
            }
            _ => {
                let e = op!(cx, O_CLOSED, -1, true, c.closed());
                cx.res(10 + conn_err(&e), -1, 0, true);
                cx.h_drop(1, -1);
                drop(c);
            }
        }
    }
    op!(cx, O_WAIT_IDLE, -1, true, ep.wait_idle());
    cx.res(0, 0, 0, true);
    ep_state(&cx, &ep);
    cx.h_drop(4, -1);
    drop(ep);
}

async fn server_accept(cx: Ctx, ep: Endpoint) {
    cx.h_new(4, -1);
    let mut first = true;
    loop {
        let inc = op!(cx, O_EP_ACCEPT, -1, true, ep.accept());
        let Some(inc) = inc else {
            cx.res(1, 0, 0, true);
            break;
        };
        cx.res(0, 0, 0, true);
        match inc.accept() {
            Ok(mut connecting) => {
                cx.h_new(1, -1);
                if first {
                    PROBES.with(|q| q.borrow_mut().push((1, connecting.verif_probe().unwrap())));
                }
                let r = op!(cx, O_CONNECT, -1, false, &mut connecting);
                drop(connecting);
                match r {
                    Ok(c) => {
                        cx.res(0, 0, 0, true);
                        if first {
                            cx.w.conn[1].set(Some(c));
                        } else {
                            cx.h_drop(1, -1);
                        }
                    }
                    Err(e) => {
                        cx.res(10 + conn_err(&e), 0, 0, true);
                        cx.h_drop(1, -1);
                        if first {
                            cx.w.conn[1].set(None);
                        }
                    }
                }
                first = false;
            }
            Err(_) => {}
        }
    }
    if first {
        cx.w.conn[1].set(None);
    }
    cx.h_drop(4, -1);
    drop(ep);
}

async fn server_main(cx: Ctx, ep: Endpoint) {
    let p = &cx.w.p;
    cx.h_new(4, -1);
    let conn = cx.w.conn[1].get(&cx).await;
    if let Some(c) = conn {
        // `c` is a second clone of the slot's handle
        cx.h_new(1, -1);
        let mode = p.get(k::END_MODE, 0);
        if mode == 2 || mode == 3 {
            let at = p.get(k::CLOSE_AT_US, 0).max(1) as u64;
            cx.st.cur_op.set((-2, O_SLEEP, -1));
            let now = cx.sh.now.load(Ordering::Relaxed);
            cx.sleep(at.saturating_sub(now).max(1)).await;
            cx.st.cur_op.set((-1, 0, -1));
            cx.sh.log(vec![39, cx.sh.t(), cx.tid(), 1, mode]);
            if mode == 2 {
                c.close(VarInt::from_u32(2), b"srv");
            } else {
                ep.close(VarInt::from_u32(3), b"srv-ep");
            }
        }
        let e = op!(cx, O_CLOSED, -1, true, c.closed());
        cx.res(10 + conn_err(&e), -1, 0, true);
        cx.w.conn[1].clear();
        cx.h_drop(1, -1); // the slot's clone
        cx.h_drop(1, -1);
        drop(c);
    }
    cx.sh.log(vec![39, cx.sh.t(), cx.tid(), 1, 5]);
    ep.close(VarInt::from_u32(0), b"");
    op!(cx, O_WAIT_IDLE, -1, true, ep.wait_idle());
    cx.res(0, 0, 0, true);
    ep_state(&cx, &ep);
    cx.h_drop(4, -1);
    drop(ep);
}

async fn server_acc_uni(cx: Ctx) {
    let Some(conn) = cx.w.conn[1].get(&cx).await else { return };
    cx.h_new(1, -1);
    acc_uni_on(cx, conn).await
}
/// the caller has logged the handle `conn` (HANDLE record) in the step that created it
async fn acc_uni_on(cx: Ctx, conn: Connection) {
    let p = &cx.w.p;
    loop {
        let r = op!(cx, O_ACCEPT_UNI, -1, true, conn.accept_uni());
        match r {
            Ok(recv) => {
                let sid = sid_of(recv.id());
                cx.res(0, sid, 0, true);
                // handle accounting: the RecvStream is created here and moved to its reader task
                cx.h_new(3, sid);
                let stop_at = if sid == 2 || p.get(k::STOP_EVERY, 0) == 1 { p.get(k::STOP_AT, -1) } else { -1 };
                let delay = p.get(k::READ_DELAY_US, 0) as u64;
                let rr_mode = p.get(k::RECV_RESET_MODE, 0);
                let rr_delay = p.get(k::RESET_POLL_DELAY_US, 0) as u64;
                let rr_hold = p.get(k::RESET_HOLD_US, 0) as u64;
                cx.spawn(move |c2| async move {
                    let mut recv = recv;
                    if rr_mode == 1 {
                        // learn of the peer's reset through received_reset() — possibly long after it
                        // arrived, when the driver has nothing else to do — and KEEP the handle
                        for (d, first) in [(rr_delay, true), (rr_hold, false)] {
                            if d > 0 {
                                c2.st.cur_op.set((-2, O_SLEEP, -1));
                                c2.sleep(d).await;
                                c2.st.cur_op.set((-1, 0, -1));
                            }
                            if first {
                                let r = op!(c2, O_RECV_RESET, sid, true, recv.received_reset());
                                match r {
                                    Ok(Some(code)) => c2.res(1, code.into_inner() as i128, 0, true),
                                    Ok(None) => c2.res(0, 0, 0, true),
                                    Err(quinn::ResetError::ConnectionLost(e)) => c2.res(10 + conn_err(&e), 0, 0, true),
                                    Err(quinn::ResetError::ZeroRttRejected) => c2.res(23, 0, 0, true),
                                }
                            }
                        }
                    } else {
                        read_job(&c2, &mut recv, sid, 1, stop_at, delay).await;
                    }
                    c2.h_drop(3, sid);
                    drop(recv);
                });
            }
            Err(e) => {
                cx.res(10 + conn_err(&e), -1, 0, true);
                break;
            }
        }
    }
    cx.h_drop(1, -1);
    drop(conn);
}

async fn server_acc_bi(cx: Ctx) {
    let Some(conn) = cx.w.conn[1].get(&cx).await else { return };
    cx.h_new(1, -1);
    acc_bi_on(cx, conn).await
}
async fn acc_bi_on(cx: Ctx, conn: Connection) {
    let p = &cx.w.p;
    loop {
        let r = op!(cx, O_ACCEPT_BI, -1, true, conn.accept_bi());
        match r {
            Ok((send, recv)) => {
                let sid = sid_of(recv.id());
                cx.res(0, sid, 0, true);
                cx.h_new(2, sid);
                cx.h_new(3, sid);
                let delay = p.get(k::READ_DELAY_US, 0) as u64;
                let echo = p.get(k::ECHO_BYTES, 1000) as usize;
                cx.spawn(move |c2| async move {
                    let (mut send, mut recv) = (send, recv);
                    let n = read_job(&c2, &mut recv, sid, 1, -1, delay).await;
                    c2.h_drop(3, sid);
                    drop(recv);
                    if n >= 0 && write_job(&c2, &mut send, sid, echo, 2, -1).await {
                        let r = send.finish();
                        c2.sh.log(vec![36, c2.sh.t(), c2.tid(), sid, r.is_ok() as i128, echo as i128]);
                    }
                    c2.h_drop(2, sid);
                    drop(send);
                });
            }
            Err(e) => {
                cx.res(10 + conn_err(&e), -1, 0, true);
                break;
            }
        }
    }
    cx.h_drop(1, -1);
    drop(conn);
}


// ------------------------------------------------------------------------------------------
// 0-RTT scenarios (ZRTT): a warm-up connection obtains a session ticket; the second connection is
// started with `into_0rtt()`; in mode 2 the server's configuration is replaced in between (fresh
// ticket keys), so the early data is REJECTED. Tasks of the second connection belong to the
// virtual endpoints 2 (client) and 3 (server). Handles created during 0-RTT are logged, in the
// rejected mode, under the alias stream id `sid + 2^40`: after the handshake every operation on
// them must fail with ZeroRttRejected while fresh streams REUSE the real ids.
const EARLY_ALIAS: i128 = 1 << 40;

fn fresh_server_config(p: &P) -> ServerConfig {
    let (cert, key) = load_cert();
    let certd = quinn::rustls::pki_types::CertificateDer::from(cert);
    let keyd = quinn::rustls::pki_types::PrivateKeyDer::Pkcs8(key.into());
    let mut scfg = ServerConfig::with_single_cert(vec![certd], keyd).unwrap();
    scfg.transport_config(Arc::new(transport(p)));
    scfg
}

async fn zr_conn_handler(cx: Ctx, inc: quinn::Incoming) {
    let acc = inc.accept();
    cx.w.zr_acc.done();
    match acc {
        Ok(connecting) => {
            cx.h_new(1, -1);
            PROBES.with(|q| q.borrow_mut().push((cx.ep, connecting.verif_probe().unwrap())));
            // 0.5-RTT: always possible on the server
            match connecting.into_0rtt() {
                Ok(conn) => {
                    let (c1, c2) = (conn.clone(), conn.clone());
                    cx.h_new(1, -1);
                    cx.h_new(1, -1);
                    cx.spawn(move |c| acc_uni_on(c, c1));
                    cx.spawn(move |c| acc_bi_on(c, c2));
                    let e = op!(cx, O_CLOSED, -1, true, conn.closed());
                    cx.res(10 + conn_err(&e), -1, 0, true);
                    cx.h_drop(1, -1);
                    drop(conn);
                }
                Err(_) => cx.h_drop(1, -1),
            }
        }
        Err(_) => {}
    }
    cx.w.zr_srv.done();
}

async fn zr_server(cx: Ctx, ep: Endpoint) {
    let p = &cx.w.p;
    cx.h_new(4, -1);
    cx.w.zr_srv.n.set(0);
    for c in 0..2usize {
        let inc = op!(cx, O_EP_ACCEPT, -1, true, ep.accept());
        let Some(inc) = inc else {
            cx.res(1, 0, 0, true);
            break;
        };
        cx.res(0, 0, 0, true);
        cx.w.zr_srv.n.set(cx.w.zr_srv.n.get() + 1);
        cx.w.zr_acc.n.set(1);
        cx.spawn_ep(1 + 2 * c, move |c2| zr_conn_handler(c2, inc));
        // the connection's TLS session is created (with the CURRENT configuration) by Incoming::accept
        cx.w.zr_acc.wait(&cx, None).await;
        if c == 0 {
            if p.get(k::ZRTT, 0) == 2 {
                // "restart": same certificate, fresh ticket keys -> the ticket issued on the first
                // connection (whose session keeps the old configuration) is useless afterwards
                ep.set_server_config(Some(fresh_server_config(p)));
                cx.sh.log(vec![44, cx.sh.t(), cx.tid(), 1]);
            }
            cx.w.zr_gate.done();
        }
    }
    cx.w.zr_srv.wait(&cx, None).await;
    cx.sh.log(vec![39, cx.sh.t(), cx.tid(), 1, 5]);
    ep.close(VarInt::from_u32(0), b"");
    op!(cx, O_WAIT_IDLE, -1, true, ep.wait_idle());
    cx.res(0, 0, 0, true);
    ep_state(&cx, &ep);
    cx.h_drop(4, -1);
    drop(ep);
}

async fn zr_client(cx: Ctx, ep: Endpoint) {
    let p = &cx.w.p;
    cx.h_new(4, -1);
    let rtt = 2 * (p.get(k::DELAY_MAX, 0).max(p.get(k::DELAY_MIN, 5000)) as u64);
    // --- warm-up connection (virtual endpoint 0)
    if let Ok(mut connecting) = ep.connect(cx.w.saddr, "localhost") {
        cx.h_new(1, -1);
        PROBES.with(|q| q.borrow_mut().push((0, connecting.verif_probe().unwrap())));
        let r = op!(cx, O_CONNECT, -1, false, &mut connecting);
        drop(connecting);
        match r {
            Ok(conn) => {
                cx.res(0, 0, 0, true);
                // one acknowledged stream: by then the server's NewSessionTicket has arrived too
                let r = op!(cx, O_OPEN_UNI, -1, true, conn.open_uni());
                if let Ok(mut send) = r {
                    let sid = sid_of(send.id());
                    cx.h_new(2, sid);
                    cx.res(0, sid, 0, true);
                    if write_job(&cx, &mut send, sid, 300, 1, -1).await {
                        let r = send.finish();
                        cx.sh.log(vec![36, cx.sh.t(), cx.tid(), sid, r.is_ok() as i128, 300]);
                        let r = op!(cx, O_STOPPED, sid, true, send.stopped());
                        cx.res(if r.is_ok() { 0 } else { 30 }, 0, 0, true);
                    }
                    cx.h_drop(2, sid);
                    drop(send);
                } else if let Err(e) = r {
                    cx.res(10 + conn_err(&e), -1, 0, true);
                }
                cx.st.cur_op.set((-2, O_SLEEP, -1));
                cx.sleep(3 * rtt).await;
                cx.st.cur_op.set((-1, 0, -1));
                cx.sh.log(vec![39, cx.sh.t(), cx.tid(), 0, 0]);
                conn.close(VarInt::from_u32(0), b"warm-up");
                cx.h_drop(1, -1);
                drop(conn);
            }
            Err(e) => {
                cx.res(10 + conn_err(&e), 0, 0, true);
                cx.h_drop(1, -1);
            }
        }
    }
    op!(cx, O_WAIT_IDLE, -1, true, ep.wait_idle());
    cx.res(0, 0, 0, true);
    cx.w.zr_gate.wait(&cx, Some(cx.sh.now.load(Ordering::Relaxed) + 5_000_000)).await;
    // --- second connection (virtual endpoint 2)
    cx.w.zr_cli.n.set(1);
    let ep2 = ep.clone();
    cx.spawn_ep(2, move |c| zr_conn2(c, ep2));
    cx.w.zr_cli.wait(&cx, None).await;
    op!(cx, O_WAIT_IDLE, -1, true, ep.wait_idle());
    cx.res(0, 0, 0, true);
    ep_state(&cx, &ep);
    cx.h_drop(4, -1);
    drop(ep);
}

async fn zr_conn2(cx: Ctx, ep: Endpoint) {
    let p = &cx.w.p;
    let mode = p.get(k::ZRTT, 1);
    cx.h_new(4, -1);
    let Ok(connecting) = ep.connect(cx.w.saddr, "localhost") else {
        cx.h_drop(4, -1);
        cx.w.zr_cli.done();
        return;
    };
    cx.h_new(1, -1);
    PROBES.with(|q| q.borrow_mut().push((cx.ep, connecting.verif_probe().unwrap())));
    let early_bytes = p.get(k::EARLY_BYTES, 700) as usize;
    let alias = if mode == 2 { EARLY_ALIAS } else { 0 };
    let helpers = Rc::new(Counter { n: Cell::new(0), wakers: RefCell::new(Vec::new()) });
    let conn = match connecting.into_0rtt() {
        Ok(conn) => {
            cx.sh.log(vec![43, cx.sh.t(), cx.tid(), cx.ep as i128, 1]);
            // --- early bidirectional stream
            let r = op!(cx, O_OPEN_BI, -1, true, conn.open_bi());
            let mut early_send = None;
            if let Ok((mut es, er)) = r {
                let sid = sid_of(es.id()) + alias;
                cx.h_new(2, sid);
                cx.h_new(3, sid);
                cx.res(0, sid, 0, true);
                if write_job(&cx, &mut es, sid, early_bytes, 1, -1).await {
                    let r = es.finish();
                    cx.sh.log(vec![36, cx.sh.t(), cx.tid(), sid, r.is_ok() as i128, early_bytes as i128]);
                }
                early_send = Some((es, sid));
                // reader of the early RecvStream: blocks until the handshake decides
                helpers.n.set(helpers.n.get() + 1);
                let h = helpers.clone();
                cx.spawn(move |c| async move {
                    let mut er = er;
                    read_job(&c, &mut er, sid, 2, -1, 0).await;
                    let d = [0u64, 300, 20_000, 60_000][c.st.rng.borrow_mut().below(4) as usize];
                    c.st.cur_op.set((-2, O_SLEEP, -1));
                    c.sleep(d).await;
                    c.st.cur_op.set((-1, 0, -1));
                    // a second read on the stale handle, then drop it (possibly after a fresh stream reuses the id)
                    let mut buf = [0u8; 8];
                    let r = op!(c, O_READ, sid, true, er.read(&mut buf));
                    match r {
                        Ok(Some(n)) => c.res(0, -1, n as i128, true),
                        Ok(None) => c.res(2, 0, 0, true),
                        Err(ReadError::ZeroRttRejected) => c.res(23, 0, 0, true),
                        Err(ReadError::ClosedStream) => c.res(21, 0, 0, true),
                        Err(ReadError::ConnectionLost(e)) => c.res(10 + conn_err(&e), 0, 0, true),
                        Err(_) => c.res(20, 0, 0, true),
                    }
                    c.h_drop(3, sid);
                    drop(er);
                    h.done();
                });
            } else if let Err(e) = r {
                cx.res(10 + conn_err(&e), -1, 0, true);
            }
            // --- early unidirectional stream; its stopped() is awaited by a helper
            let r = op!(cx, O_OPEN_UNI, -1, true, conn.open_uni());
            if let Ok(mut eu) = r {
                let sid = sid_of(eu.id()) + alias;
                cx.h_new(2, sid);
                cx.res(0, sid, 0, true);
                if write_job(&cx, &mut eu, sid, early_bytes, 1, -1).await {
                    let r = eu.finish();
                    cx.sh.log(vec![36, cx.sh.t(), cx.tid(), sid, r.is_ok() as i128, early_bytes as i128]);
                }
                helpers.n.set(helpers.n.get() + 1);
                let h = helpers.clone();
                cx.spawn(move |c| async move {
                    let eu = eu;
                    let r = op!(c, O_STOPPED, sid, true, eu.stopped());
                    match r {
                        Ok(None) => c.res(0, 0, 0, true),
                        Ok(Some(code)) => c.res(1, code.into_inner() as i128, 0, true),
                        Err(quinn::StoppedError::ConnectionLost(e)) => c.res(10 + conn_err(&e), 0, 0, true),
                        Err(quinn::StoppedError::ZeroRttRejected) => c.res(23, 0, 0, true),
                    }
                    let d = [0u64, 300, 20_000, 60_000][c.st.rng.borrow_mut().below(4) as usize];
                    c.st.cur_op.set((-2, O_SLEEP, -1));
                    c.sleep(d).await;
                    c.st.cur_op.set((-1, 0, -1));
                    c.h_drop(2, sid);
                    drop(eu);
                    h.done();
                });
            } else if let Err(e) = r {
                cx.res(10 + conn_err(&e), -1, 0, true);
            }
            // --- the handshake completes (or fails)
            let r = op!(cx, O_AUTH, -1, true, conn.authenticated());
            match r {
                Ok(()) => cx.res(0, 0, 0, true),
                Err(e) => cx.res(10 + conn_err(&e), 0, 0, true),
            }
            cx.sh.log(vec![41, cx.sh.t(), cx.tid(), cx.ep as i128, mode]);
            if let Some((mut es, sid)) = early_send {
                // a write on the early SendStream after the handshake
                let r = op!(cx, O_WRITE, sid, true, es.write(b"late"));
                match r {
                    Ok(n) => cx.res(2, -1, n as i128, true),
                    Err(WriteError::ZeroRttRejected) => cx.res(22, 0, 0, true),
                    Err(WriteError::ClosedStream) => cx.res(21, 0, 0, true),
                    Err(WriteError::Stopped(_)) => cx.res(20, 0, 0, true),
                    Err(WriteError::ConnectionLost(e)) => cx.res(10 + conn_err(&e), 0, 0, true),
                }
                // the stale SendStream is dropped while the fresh streams are in use
                helpers.n.set(helpers.n.get() + 1);
                let h = helpers.clone();
                cx.spawn(move |c| async move {
                    let es = es;
                    let d = [0u64, 300, 20_000, 60_000][c.st.rng.borrow_mut().below(4) as usize];
                    c.st.cur_op.set((-2, O_SLEEP, -1));
                    c.sleep(d).await;
                    c.st.cur_op.set((-1, 0, -1));
                    c.h_drop(2, sid);
                    drop(es);
                    h.done();
                });
            }
            Some(conn)
        }
        Err(mut connecting) => {
            cx.sh.log(vec![43, cx.sh.t(), cx.tid(), cx.ep as i128, 0]);
            let r = op!(cx, O_CONNECT, -1, false, &mut connecting);
            drop(connecting);
            match r {
                Ok(c) => {
                    cx.res(0, 0, 0, true);
                    Some(c)
                }
                Err(e) => {
                    cx.res(10 + conn_err(&e), 0, 0, true);
                    cx.h_drop(1, -1);
                    None
                }
            }
        }
    };
    if let Some(conn) = conn {
        // --- fresh streams after the handshake (they reuse the early ids when 0-RTT was rejected)
        cx.w.conn[0].set(Some(conn.clone()));
        cx.h_new(1, -1);
        for i in 0..p.get(k::NBIDI, 0) {
            cx.spawn(move |c| client_bi(c, i as usize));
        }
        for i in 0..p.get(k::NUNI, 1) {
            cx.spawn(move |c| client_uni(c, i as usize));
        }
        cx.w.jobs.wait(&cx, None).await;
        cx.w.conn[0].clear();
        cx.h_drop(1, -1);
        helpers.wait(&cx, None).await;
        cx.sh.log(vec![39, cx.sh.t(), cx.tid(), cx.ep as i128, 0]);
        conn.close(VarInt::from_u32(0), b"done");
        cx.h_drop(1, -1);
        drop(conn);
    } else {
        cx.w.conn[0].set(None);
    }
    cx.h_drop(4, -1);
    drop(ep);
    cx.w.zr_cli.done();
}

// ------------------------------------------------------------------------------------------
// configuration
fn load_cert() -> (Vec<u8>, Vec<u8>) {
    let dir = std::env::var("QVH_CERTS").unwrap_or_else(|_| {
        let mut p = std::env::current_exe().unwrap();
        for _ in 0..4 {
            p.pop();
        }
        p.push("harness");
        p.push("certs");
        p.to_string_lossy().to_string()
    });
    (
        std::fs::read(format!("{}/cert.der", dir)).expect("cert.der"),
        std::fs::read(format!("{}/key.der", dir)).expect("key.der"),
    )
}
struct SeqCid {
    next: u64,
    tag: u8,
}
impl quinn::ConnectionIdGenerator for SeqCid {
    fn generate_cid(&mut self) -> quinn::ConnectionId {
        self.next += 1;
        let mut b = [0u8; 8];
        b[0] = self.tag;
        b[1..8].copy_from_slice(&self.next.to_be_bytes()[1..8]);
        quinn::ConnectionId::new(&b)
    }
    fn cid_len(&self) -> usize {
        8
    }
    fn cid_lifetime(&self) -> Option<Duration> {
        None
    }
}
struct RingHmac(ring::hmac::Key);
impl quinn::crypto::HmacKey for RingHmac {
    fn sign(&self, data: &[u8], out: &mut [u8]) {
        out.copy_from_slice(ring::hmac::sign(&self.0, data).as_ref());
    }
    fn signature_len(&self) -> usize {
        32
    }
    fn verify(&self, data: &[u8], signature: &[u8]) -> Result<(), quinn::crypto::CryptoError> {
        ring::hmac::verify(&self.0, data, signature).map_err(|_| quinn::crypto::CryptoError)
    }
}
fn ep_config(tag: u8, seed: u64) -> EndpointConfig {
    let mut rk = [0u8; 64];
    for (i, b) in rk.iter_mut().enumerate() {
        *b = (seed as u8).wrapping_add(i as u8).wrapping_mul(37) ^ tag;
    }
    let mut c = EndpointConfig::new(Arc::new(RingHmac(ring::hmac::Key::new(ring::hmac::HMAC_SHA256, &rk))));
    let mut s = [0u8; 32];
    for (i, b) in s.iter_mut().enumerate() {
        *b = (seed >> (i % 8)) as u8 ^ tag ^ (i as u8);
    }
    c.rng_seed(Some(s));
    c.cid_generator(Arc::new(move || Box::new(SeqCid { next: 0, tag }) as Box<dyn quinn::ConnectionIdGenerator>));
    c
}
fn transport(p: &P) -> TransportConfig {
    let mut t = TransportConfig::default();
    let idle = p.get(k::IDLE_MS, 30_000);
    if idle == 0 {
        t.max_idle_timeout(None);
    } else {
        t.max_idle_timeout(Some(IdleTimeout::try_from(Duration::from_millis(idle as u64)).unwrap()));
    }
    if p.get(k::SEND_WINDOW, 0) > 0 {
        t.send_window(p.get(k::SEND_WINDOW, 0) as u64);
    }
    if p.get(k::STREAM_RWND, 0) > 0 {
        t.stream_receive_window(VarInt::from_u64(p.get(k::STREAM_RWND, 0) as u64).unwrap());
    }
    if p.get(k::RWND, 0) > 0 {
        t.receive_window(VarInt::from_u64(p.get(k::RWND, 0) as u64).unwrap());
    }
    t.max_concurrent_bidi_streams(VarInt::from_u64(p.get(k::MAX_BIDI, 100) as u64).unwrap());
    t.max_concurrent_uni_streams(VarInt::from_u64(p.get(k::MAX_UNI, 100) as u64).unwrap());
    t.mtu_discovery_config(None);
    t.enable_segmentation_offload(false);
    if p.get(k::DGRAM_SEND_BUF, 0) > 0 {
        t.datagram_send_buffer_size(p.get(k::DGRAM_SEND_BUF, 0) as usize);
    }
    t
}

// ------------------------------------------------------------------------------------------
// executor
thread_local! {
    static PROBES: RefCell<Vec<(usize, quinn::verif_hooks::ConnProbe)>> = RefCell::new(Vec::new());
}
struct Task {
    fut: Option<Pin<Box<dyn Future<Output = ()>>>>,
    kind: i128, // 0 endpoint driver 1 connection driver 2 application
    ep: usize,
    wk: Arc<TaskWaker>,
    st: Option<Rc<TaskSt>>,
}

fn new_ctx(sh: &Arc<Sh>, w: &Rc<World>, ep: usize, seed: u64) -> (Ctx, Rc<TaskSt>) {
    let st = Rc::new(TaskSt {
        cur_op: Cell::new((-1, 0, -1)),
        forced: Cell::new(false),
        progressed: Cell::new(false),
        last_op: Cell::new(-1),
        rng: RefCell::new(Rng::new(seed)),
        cancel_pm: w.p.get(k::CANCEL, 0),
    });
    (Ctx { sh: sh.clone(), task: Rc::new(Cell::new(-1)), ep, st: st.clone(), w: w.clone() }, st)
}
fn push_app<F: Future<Output = ()> + 'static>(sh: &Arc<Sh>, w: &Rc<World>, ep: usize, seed: u64, mk: impl FnOnce(Ctx) -> F) {
    let (cx, st) = new_ctx(sh, w, ep, seed);
    let cell = cx.task.clone();
    let fut = mk(cx);
    NEWQ.with(|q| q.borrow_mut().push(NewTask::App(ep, st, cell, Box::pin(fut))));
}

pub fn run_case(ops: &[Vec<i128>]) -> Vec<Vec<i128>> {
    let p = P::from_ops(ops);
    let seed = p.get(k::SEED, 1) as u64;
    let caddr = SocketAddr::new(IpAddr::V4(Ipv4Addr::new(10, 0, 0, 1)), 40000);
    let saddr = SocketAddr::new(IpAddr::V4(Ipv4Addr::new(10, 0, 0, 2)), 4433);
    let dmin = p.get(k::DELAY_MIN, 5000) as u64;
    let sh = Arc::new(Sh {
        base: Instant::now(),
        now: AtomicU64::new(0),
        cur: AtomicI64::new(-1),
        opid: AtomicU64::new(0),
        trace: Mutex::new(Vec::new()),
        inner: Mutex::new(Inner {
            net_rng: Rng::new(seed ^ 0xA5A5_5A5A),
            timers: BTreeMap::new(),
            next_timer: 0,
            net: Vec::new(),
            seq: 0,
            socks: vec![
                SockSt { addr: caddr, inbox: VecDeque::new(), rwaker: None, sends: 0 },
                SockSt { addr: saddr, inbox: VecDeque::new(), rwaker: None, sends: 0 },
            ],
            loss: p.get(k::LOSS, 0),
            dup: p.get(k::DUP, 0),
            dmin,
            dmax: (p.get(k::DELAY_MAX, dmin as i128) as u64).max(dmin),
            send_block: p.get(k::SEND_BLOCK, 0),
            ioerr_after: p.get(k::IOERR_AFTER, -1),
        }),
    });
    NEWQ.with(|q| q.borrow_mut().clear());
    PROBES.with(|q| q.borrow_mut().clear());
    let sh2 = sh.clone();
    let r = std::panic::catch_unwind(std::panic::AssertUnwindSafe(move || run(sh2, p, saddr)));
    if r.is_err() {
        let t = sh.t();
        sh.log(vec![16, t, 1]);
        // the world may hold poisoned locks: never run its destructors
        NEWQ.with(|q| std::mem::forget(std::mem::take(&mut *q.borrow_mut())));
    }
    PROBES.with(|q| q.borrow_mut().clear());
    let tr = std::mem::take(&mut *sh.trace.lock().unwrap());
    tr
}

fn run(sh: Arc<Sh>, p: P, saddr: SocketAddr) {
    let seed = p.get(k::SEED, 1) as u64;
    let (cert, key) = load_cert();
    let certd = quinn::rustls::pki_types::CertificateDer::from(cert);
    let keyd = quinn::rustls::pki_types::PrivateKeyDer::Pkcs8(key.into());
    let mut scfg = ServerConfig::with_single_cert(vec![certd.clone()], keyd).unwrap();
    scfg.transport_config(Arc::new(transport(&p)));
    let mut roots = quinn::rustls::RootCertStore::empty();
    roots.add(certd).unwrap();
    let mut ccfg = ClientConfig::with_root_certificates(Arc::new(roots)).unwrap();
    ccfg.transport_config(Arc::new(transport(&p)));

    let mut sched = Rng::new(seed ^ 0x5DEECE66D);
    let n_jobs = p.get(k::NUNI, 1) + p.get(k::NBIDI, 0) + if p.get(k::NDGRAM, 0) > 0 { 1 } else { 0 };
    let w = Rc::new(World {
        conn: [Slot::new(), Slot::new()],
        jobs: Counter { n: Cell::new(n_jobs as i64), wakers: RefCell::new(Vec::new()) },
        echoes: Counter { n: Cell::new(0), wakers: RefCell::new(Vec::new()) },
        zr_srv: Counter { n: Cell::new(0), wakers: RefCell::new(Vec::new()) },
        zr_gate: Counter { n: Cell::new(1), wakers: RefCell::new(Vec::new()) },
        zr_acc: Counter { n: Cell::new(0), wakers: RefCell::new(Vec::new()) },
        zr_cli: Counter { n: Cell::new(0), wakers: RefCell::new(Vec::new()) },
        saddr,
        p,
    });
    let p = &w.p;
    let max_time = p.get(k::MAX_TIME, 120_000_000) as u64;
    let spurious = p.get(k::SPURIOUS, 0);

    // endpoints (their drivers are spawned through the runtime)
    let cep = Endpoint::new_with_abstract_socket(
        ep_config(0xC1, seed),
        None,
        Box::new(SimSocket { ep: 0, sh: sh.clone() }),
        Arc::new(SimRuntime { ep: 0, sh: sh.clone() }),
    )
    .unwrap();
    cep.set_default_client_config(ccfg);
    let sep = Endpoint::new_with_abstract_socket(
        ep_config(0x5E, seed ^ 0xABCD),
        Some(scfg),
        Box::new(SimSocket { ep: 1, sh: sh.clone() }),
        Arc::new(SimRuntime { ep: 1, sh: sh.clone() }),
    )
    .unwrap();

    // application tasks
    let mut ts = Rng::new(seed ^ 0x7777);
    if p.get(k::ZRTT, 0) > 0 {
        push_app(&sh, &w, 1, ts.next(), move |cx| zr_server(cx, sep));
        push_app(&sh, &w, 0, ts.next(), move |cx| zr_client(cx, cep));
    } else     {
        let sep2 = sep.clone();
        push_app(&sh, &w, 1, ts.next(), move |cx| server_accept(cx, sep2));
        push_app(&sh, &w, 1, ts.next(), move |cx| server_main(cx, sep));
        for _ in 0..p.get(k::NACCEPTORS, 1).max(1) {
            push_app(&sh, &w, 1, ts.next(), server_acc_uni);
        }
        push_app(&sh, &w, 1, ts.next(), server_acc_bi);
        push_app(&sh, &w, 1, ts.next(), |cx| dgram_reader(cx, 1, true));
        push_app(&sh, &w, 0, ts.next(), move |cx| client_main(cx, cep));
        for i in 0..p.get(k::NUNI, 1) {
            push_app(&sh, &w, 0, ts.next(), move |cx| client_uni(cx, i as usize));
        }
        for i in 0..p.get(k::NBIDI, 0) {
            push_app(&sh, &w, 0, ts.next(), move |cx| client_bi(cx, i as usize));
        }
        if p.get(k::NDGRAM, 0) > 0 {
            push_app(&sh, &w, 0, ts.next(), dgram_sender);
            push_app(&sh, &w, 0, ts.next(), |cx| dgram_reader(cx, 0, false));
        }
        let hang = p.get(k::HANG_OPS, 0);
        for bit in [1, 2, 4, 8, 16] {
            if hang & bit != 0 {
                push_app(&sh, &w, 0, ts.next(), move |cx| hang_task(cx, bit));
            }
        }
    }

    let mut tasks: Vec<Task> = Vec::new();
    let mut ep_seen = [false; 2];
    let mut last_snap: BTreeMap<usize, Vec<i128>> = BTreeMap::new();
    let mut conn_count = [0usize; 2];
    let mut steps: u64 = 0;
    let mut quiesced = 0;
    let mut semis = 0;
    let end_reason;
    loop {
        // adopt new tasks
        let newq: Vec<NewTask> = NEWQ.with(|q| std::mem::take(&mut *q.borrow_mut()));
        for nt in newq {
            let id = tasks.len();
            let wk = Arc::new(TaskWaker { id, runnable: AtomicBool::new(true), sh: sh.clone() });
            match nt {
                NewTask::Quinn(ep, fut) => {
                    let kind = if ep_seen[ep] { 1 } else { 0 };
                    ep_seen[ep] = true;
                    // connection drivers belong to the virtual endpoint ep + 2 * connection index
                    let vep = if kind == 1 {
                        conn_count[ep] += 1;
                        ep + 2 * (conn_count[ep] - 1)
                    } else {
                        ep
                    };
                    sh.log(vec![33, sh.t(), id as i128, kind, vep as i128]);
                    tasks.push(Task { fut: Some(fut), kind, ep: vep, wk, st: None });
                }
                NewTask::App(ep, st, cell, fut) => {
                    sh.log(vec![33, sh.t(), id as i128, 2, ep as i128]);
                    cell.set(id as i128);
                    tasks.push(Task { fut: Some(fut), kind: 2, ep, wk, st: Some(st) });
                }
            }
        }
        steps += 1;
        if steps > 400_000 {
            end_reason = 3;
            break;
        }
        let now = sh.now.load(Ordering::Relaxed);
        if now > max_time {
            end_reason = 2;
            break;
        }
        let runnable: Vec<usize> = tasks
            .iter()
            .enumerate()
            .filter(|(_, t)| t.fut.is_some() && t.wk.runnable.load(Ordering::Relaxed))
            .map(|(i, _)| i)
            .collect();
        let mut pick = None;
        let mut spur = 0;
        if !runnable.is_empty() {
            pick = Some(runnable[sched.below(runnable.len() as u64) as usize]);
            if spurious > 0 && sched.chance(spurious) {
                let live: Vec<usize> = tasks.iter().enumerate().filter(|(_, t)| t.fut.is_some()).map(|(i, _)| i).collect();
                let c = live[sched.below(live.len() as u64) as usize];
                if !tasks[c].wk.runnable.load(Ordering::Relaxed) {
                    spur = 1;
                }
                pick = Some(c);
            }
        }
        let Some(i) = pick else {
            // nothing runnable: advance virtual time to the next timer / delivery
            let next = {
                let g = sh.inner.lock().unwrap();
                let a = g.timers.values().filter(|(_, w)| w.is_some()).map(|(d, _)| *d).min();
                let b = g.net.iter().map(|p| p.at).min();
                match (a, b) {
                    (Some(x), Some(y)) => Some(x.min(y)),
                    (x, y) => x.or(y),
                }
            };
            match next {
                Some(t) => {
                    let t = t.max(now);
                    if t >= now + 50_000 && semis < 400 {
                        // the clock is about to jump: same check as at quiescence
                        semis += 1;
                        forced_round(&sh, &mut tasks, -1, 1);
                        let more = NEWQ.with(|q| !q.borrow().is_empty())
                            || tasks.iter().any(|t| t.fut.is_some() && t.wk.runnable.load(Ordering::Relaxed));
                        if more {
                            continue;
                        }
                    }
                    sh.now.store(t, Ordering::Relaxed);
                    let mut wake: Vec<Waker> = Vec::new();
                    {
                        let mut g = sh.inner.lock().unwrap();
                        let mut due: Vec<Pkt> = Vec::new();
                        let mut k2 = 0;
                        while k2 < g.net.len() {
                            if g.net[k2].at <= t {
                                due.push(g.net.swap_remove(k2));
                            } else {
                                k2 += 1;
                            }
                        }
                        due.sort_by_key(|p| (p.at, p.seq));
                        for pk in due {
                            let s = &mut g.socks[pk.dst];
                            s.inbox.push_back((pk.src, pk.data));
                            if let Some(w) = s.rwaker.take() {
                                wake.push(w);
                            }
                        }
                        for (_, e) in g.timers.iter_mut() {
                            if e.0 <= t {
                                if let Some(w) = e.1.take() {
                                    wake.push(w);
                                }
                            }
                        }
                    }
                    for w in wake {
                        w.wake();
                    }
                    continue;
                }
                None => {
                    // QUIESCENT
                    let any = forced_round(&sh, &mut tasks, quiesced, 0);
                    quiesced += 1;
                    let more = NEWQ.with(|q| !q.borrow().is_empty())
                        || tasks.iter().any(|t| t.fut.is_some() && t.wk.runnable.load(Ordering::Relaxed));
                    if (any || more) && quiesced < 50 {
                        continue;
                    }
                    end_reason = 1;
                    break;
                }
            }
        };
        let _ = poll_task(&sh, &mut tasks, i, spur);
        // waiter-set snapshots after the step (logged when changed)
        PROBES.with(|q| {
            for (side, pr) in q.borrow().iter() {
                let snap = pr.snapshot().unwrap_or_default();
                if Some(&snap) != last_snap.get(side).or(if snap.is_empty() { Some(&snap) } else { None }) {
                    let mut r = vec![27, sh.t(), *side as i128, if snap.is_empty() { 0 } else { 1 }];
                    r.extend(snap.iter().copied());
                    sh.log(r);
                    last_snap.insert(*side, snap);
                }
            }
        });
        sh.log(vec![40, sh.t()]);
    }
    let live_app = tasks.iter().filter(|t| t.fut.is_some() && t.kind == 2).count() as i128;
    let live_cd = tasks.iter().filter(|t| t.fut.is_some() && t.kind == 1).count() as i128;
    let live_ed = tasks.iter().filter(|t| t.fut.is_some() && t.kind == 0).count() as i128;
    sh.log(vec![10, sh.t(), end_reason, steps as i128, live_app, live_cd, live_ed]);
    // tear the world down quietly (outside the trace)
    sh.cur.store(-2, Ordering::Relaxed);
    let n = sh.trace.lock().unwrap().len();
    drop(tasks);
    NEWQ.with(|q| q.borrow_mut().clear());
    sh.trace.lock().unwrap().truncate(n);
}


/// Nothing is runnable: by the wake-up invariant every pending operation's condition is false.
/// Poll every live task once more, application operations with a FRESH future; `lost` = an
/// operation completed although nobody woke its task. `semi` = 1: timers are still pending (the
/// clock is about to jump), 0: full quiescence.
fn forced_round(sh: &Arc<Sh>, tasks: &mut Vec<Task>, n: i128, semi: i128) -> bool {
    let live_app = tasks.iter().filter(|t| t.fut.is_some() && t.kind == 2).count();
    let live_drv = tasks.iter().filter(|t| t.fut.is_some() && t.kind != 2).count();
    sh.log(vec![29, sh.t(), n, live_app as i128, live_drv as i128, semi]);
    let mut any = false;
    for i in 0..tasks.len() {
        if tasks[i].fut.is_none() || (semi == 1 && tasks[i].kind != 2) {
            continue;
        }
        let before = tasks[i].st.as_ref().map(|s| s.cur_op.get()).unwrap_or((-1, 0, -1));
        if semi == 1 && before.0 < 0 {
            continue;
        }
        if let Some(st) = &tasks[i].st {
            st.forced.set(true);
            st.progressed.set(false);
        }
        let done = poll_task(sh, tasks, i, 2);
        let prog = tasks[i].st.as_ref().map(|s| s.progressed.get()).unwrap_or(false);
        if let Some(st) = &tasks[i].st {
            st.forced.set(false);
        }
        // a forced poll that completes a quinn operation = its wake-up was lost;
        // a driver that finishes only when forced likewise
        let lost = (prog && before.0 >= 0) || (done && tasks[i].kind != 2);
        sh.log(vec![30, sh.t(), i as i128, tasks[i].kind, before.0, before.1, before.2, lost as i128]);
        if prog || done {
            any = true;
        }
    }
    any
}

/// poll task `i` once; mode 0 normal, 1 spurious, 2 forced. Returns whether it finished.
fn poll_task(sh: &Arc<Sh>, tasks: &mut [Task], i: usize, mode: i128) -> bool {
    let waker = Waker::from(tasks[i].wk.clone());
    let mut cx = Context::from_waker(&waker);
    tasks[i].wk.runnable.store(false, Ordering::Relaxed);
    sh.cur.store(i as i64, Ordering::Relaxed);
    let r = tasks[i].fut.as_mut().unwrap().as_mut().poll(&mut cx);
    sh.cur.store(-1, Ordering::Relaxed);
    let op = tasks[i].st.as_ref().map(|s| s.cur_op.get()).unwrap_or((-1, 0, -1));
    let done = r.is_ready();
    sh.log(vec![20, sh.t(), i as i128, tasks[i].kind, done as i128, mode, op.0, op.1, op.2]);
    if done {
        sh.cur.store(i as i64, Ordering::Relaxed);
        tasks[i].fut = None;
        sh.cur.store(-1, Ordering::Relaxed);
        sh.log(vec![26, sh.t(), i as i128, tasks[i].kind, tasks[i].ep as i128]);
    }
    done
}
