//! Hostile transport parameters through a LIVE connection (C03): the victim endpoint's crypto
//! session is wrapped (public `crypto::Session` trait, no hook needed) so that the transport
//! parameters it hands to `Connection` are the genuine peer's parameters after a structure-aware
//! mutation of their wire encoding — exactly what a hostile peer that completes the TLS handshake
//! can present. If the mutated encoding does not decode, the wrapper returns the error the real
//! rustls session returns for it (`TransportParameters::read(..)` error `.into()`).
use quinn_proto::crypto::{self, ExportKeyingMaterialError, KeyPair, Keys, Session};
use quinn_proto::transport_parameters::TransportParameters;
use quinn_proto::{ConnectError, ConnectionId, Side, TransportError};
use std::any::Any;
use std::sync::atomic::{AtomicI64, Ordering};
use std::sync::{Arc, Mutex};

pub struct TpShared {
    pub kind: i128,
    pub seed: u64,
    /// pair index whose session is attacked
    pub target_idx: i64,
    /// pair index of the connection being created right now (set by the simulator around
    /// `Endpoint::connect` / `Endpoint::accept`)
    pub cur_idx: AtomicI64,
    /// bumped by the simulator after `Endpoint::connect`, so that the outcome for the REMEMBERED
    /// parameters (0-RTT, read inside connect) and for the handshake's parameters are both logged
    pub epoch: AtomicI64,
    /// (victim side, idx, kind, decoded) — drained by the simulator into WORLD records
    pub log: Mutex<Vec<(i128, i128, i128, i128)>>,
}

fn get_var(b: &[u8], pos: &mut usize) -> Option<u64> {
    let first = *b.get(*pos)?;
    let len = 1usize << (first >> 6);
    if *pos + len > b.len() {
        return None;
    }
    let mut v = (first & 0x3f) as u64;
    for i in 1..len {
        v = (v << 8) | b[*pos + i] as u64;
    }
    *pos += len;
    Some(v)
}

pub fn put_var(out: &mut Vec<u8>, v: u64) {
    if v < 1 << 6 {
        out.push(v as u8);
    } else if v < 1 << 14 {
        out.extend_from_slice(&((v as u16) | 0x4000).to_be_bytes());
    } else if v < 1 << 30 {
        out.extend_from_slice(&((v as u32) | 0x8000_0000).to_be_bytes());
    } else {
        out.extend_from_slice(&(v | 0xc000_0000_0000_0000).to_be_bytes());
    }
}

fn parse(b: &[u8]) -> Vec<(u64, Vec<u8>)> {
    let mut v = Vec::new();
    let mut pos = 0;
    while pos < b.len() {
        let Some(id) = get_var(b, &mut pos) else { break };
        let Some(len) = get_var(b, &mut pos) else { break };
        let len = len as usize;
        if pos + len > b.len() {
            break;
        }
        v.push((id, b[pos..pos + len].to_vec()));
        pos += len;
    }
    v
}

fn emit(v: &[(u64, Vec<u8>)]) -> Vec<u8> {
    let mut out = Vec::new();
    for (id, val) in v {
        put_var(&mut out, *id);
        put_var(&mut out, val.len() as u64);
        out.extend_from_slice(val);
    }
    out
}

fn var_bytes(v: u64) -> Vec<u8> {
    let mut o = Vec::new();
    put_var(&mut o, v);
    o
}

fn set(v: &mut Vec<(u64, Vec<u8>)>, id: u64, val: Vec<u8>) {
    for e in v.iter_mut() {
        if e.0 == id {
            e.1 = val;
            return;
        }
    }
    v.push((id, val));
}

fn rnd(s: &mut u64) -> u64 {
    *s = s.wrapping_add(0x9E3779B97F4A7C15);
    let mut z = *s;
    z = (z ^ (z >> 30)).wrapping_mul(0xBF58476D1CE4E5B9);
    z = (z ^ (z >> 27)).wrapping_mul(0x94D049BB133111EB);
    z ^ (z >> 31)
}

const VMAX: u64 = (1 << 62) - 1;
const MIN_ACK_DELAY: u64 = 0xff04de1b;

/// catalogue of mutations; `kind` selects one (documented in harness/TRACE.md)
pub fn mutate(kind: i128, seed: u64, genuine: &[u8]) -> Vec<u8> {
    let mut v = parse(genuine);
    let mut s = seed ^ (kind as u64).wrapping_mul(0x1234567);
    // (id, value) tables
    let legal: [(u64, u64); 34] = [
        (0x01, 1), (0x01, 50), (0x01, VMAX), (0x03, 1200), (0x03, 1201), (0x03, 65527), (0x03, VMAX),
        (0x04, 0), (0x04, 1), (0x04, VMAX), (0x05, 0), (0x05, VMAX), (0x06, 0), (0x06, VMAX),
        (0x07, 0), (0x07, VMAX), (0x08, 0), (0x08, 1 << 60), (0x09, 0), (0x09, 1 << 60),
        (0x0a, 0), (0x0a, 20), (0x0b, 0), (0x0b, 16383), (0x0e, 2), (0x0e, VMAX),
        (0x20, 0), (0x20, 1), (0x20, 65535), (0x20, VMAX),
        (MIN_ACK_DELAY, 0), (MIN_ACK_DELAY, 1), (MIN_ACK_DELAY, 25_000), (MIN_ACK_DELAY, 16_383_000),
    ];
    let illegal: [(u64, u64); 9] = [
        (0x03, 1199), (0x03, 0), (0x0a, 21), (0x0b, 16384), (0x0e, 1), (0x0e, 0), (0x08, (1 << 60) + 1),
        (0x09, VMAX), (MIN_ACK_DELAY, 16_384_000),
    ];
    match kind {
        // 1..=34: one legal-but-extreme value
        k if (1..=34).contains(&k) => {
            let (id, val) = legal[(k - 1) as usize];
            set(&mut v, id, var_bytes(val));
        }
        // 35..=43: one value the decoder must reject
        k if (35..=43).contains(&k) => {
            let (id, val) = illegal[(k - 35) as usize];
            set(&mut v, id, var_bytes(val));
        }
        // 44: several legal extremes at once (seeded)
        44 => {
            for _ in 0..(2 + rnd(&mut s) % 5) {
                let (id, val) = legal[(rnd(&mut s) % legal.len() as u64) as usize];
                set(&mut v, id, var_bytes(val));
            }
        }
        // 45: random varint value for a random known id
        45 => {
            let ids = [0x01u64, 0x03, 0x04, 0x05, 0x06, 0x07, 0x08, 0x09, 0x0a, 0x0b, 0x0e, 0x20, MIN_ACK_DELAY];
            for _ in 0..(1 + rnd(&mut s) % 3) {
                let id = ids[(rnd(&mut s) % ids.len() as u64) as usize];
                let bits = rnd(&mut s) % 62;
                let val = rnd(&mut s) & ((1u64 << bits) | ((1u64 << bits) - 1));
                set(&mut v, id, var_bytes(val));
            }
        }
        // 46: remove a parameter (initial_src_cid is mandatory; others fall back to defaults)
        46 => {
            if !v.is_empty() {
                let i = (rnd(&mut s) % v.len() as u64) as usize;
                v.remove(i);
            }
        }
        // 47: remove initial_source_connection_id
        47 => v.retain(|e| e.0 != 0x0f),
        // 48: duplicate a parameter
        48 => {
            if !v.is_empty() {
                let i = (rnd(&mut s) % v.len() as u64) as usize;
                let e = v[i].clone();
                v.push(e);
            }
        }
        // 49: unknown / reserved parameters with random contents (must be ignored)
        49 => {
            for _ in 0..(1 + rnd(&mut s) % 4) {
                let id = 31 * (rnd(&mut s) % 1000) + 27;
                let n = (rnd(&mut s) % 40) as usize;
                let val: Vec<u8> = (0..n).map(|_| rnd(&mut s) as u8).collect();
                v.push((id, val));
            }
            v.push((0x7fff_ffff, vec![]));
        }
        // 50: wrong initial_source_connection_id
        50 => set(&mut v, 0x0f, vec![9, 9, 9, 9]),
        // 51: server-only parameters (sent by a client: illegal; by a server: inconsistent values)
        51 => set(&mut v, 0x00, vec![1, 2, 3, 4, 5, 6, 7, 8]),
        52 => set(&mut v, 0x02, vec![0xAB; 16]),
        53 => set(&mut v, 0x02, vec![0xAB; 15]),
        54 => set(&mut v, 0x10, vec![7; 8]),
        // 55: preferred_address with a zero-length CID / 56: well-formed / 57: truncated
        55 => {
            let mut p = vec![0u8; 4 + 2 + 16 + 2];
            p.push(0);
            p.extend_from_slice(&[0x11; 16]);
            set(&mut v, 0x0d, p);
        }
        56 => {
            let mut p = vec![10, 9, 9, 9, 0x11, 0x51];
            p.extend_from_slice(&[0u8; 18]);
            p.push(8);
            p.extend_from_slice(&[0xE0, 1, 2, 3, 4, 5, 6, 7]);
            p.extend_from_slice(&[0x22; 16]);
            set(&mut v, 0x0d, p);
        }
        57 => set(&mut v, 0x0d, vec![1, 2, 3]),
        // 58: a fixed-size flag with a body; 59: an integer parameter whose body is not one varint
        58 => set(&mut v, 0x0c, vec![1]),
        59 => set(&mut v, 0x04, vec![0x40]),
        60 => set(&mut v, 0x04, vec![0x01, 0x02]),
        // 61: grease_quic_bit with a body
        61 => set(&mut v, 0x2ab2, vec![0]),
        // 62: CID longer than 20 bytes
        62 => set(&mut v, 0x0f, vec![3; 21]),
        // 63: max_datagram_frame_size absent although datagrams might be in use / present
        63 => v.retain(|e| e.0 != 0x20),
        // 64: min_ack_delay above max_ack_delay (both legal alone)
        64 => {
            set(&mut v, 0x0b, var_bytes(1));
            set(&mut v, MIN_ACK_DELAY, var_bytes(2000));
        }
        // 71/72: large min_ack_delay made legal by a matching max_ack_delay (F4)
        71 => {
            set(&mut v, 0x0b, var_bytes(16383));
            set(&mut v, MIN_ACK_DELAY, var_bytes(16_383_000));
        }
        72 => {
            set(&mut v, 0x0b, var_bytes(100));
            set(&mut v, MIN_ACK_DELAY, var_bytes(26_000 + rnd(&mut s) % 70_000));
        }
        _ => {}
    }
    let mut out = emit(&v);
    match kind {
        // 65: truncated encoding; 66: trailing garbage; 67: length field beyond the end; 68: empty
        65 => {
            let n = out.len();
            if n > 1 {
                out.truncate(1 + (rnd(&mut s) % (n as u64 - 1)) as usize);
            }
        }
        66 => out.push(0x05),
        67 => {
            put_var(&mut out, 0x04);
            put_var(&mut out, 1000);
            out.push(1);
        }
        68 => out.clear(),
        // 69: random bytes
        69 => {
            let n = (rnd(&mut s) % 80) as usize;
            out = (0..n).map(|_| rnd(&mut s) as u8).collect();
        }
        // 70: random byte flips of the genuine encoding
        70 => {
            for _ in 0..(1 + rnd(&mut s) % 3) {
                if !out.is_empty() {
                    let i = (rnd(&mut s) % out.len() as u64) as usize;
                    out[i] ^= 1 << (rnd(&mut s) % 8);
                }
            }
        }
        _ => {}
    }
    out
}

pub const N_KINDS: i128 = 72;

pub struct HSession {
    inner: Box<dyn Session>,
    side: Side,
    idx: i64,
    m: Option<Arc<TpShared>>,
    last: Mutex<(i64, i128)>,
}

impl Session for HSession {
    fn initial_keys(&self, dst_cid: ConnectionId, side: Side) -> Keys {
        self.inner.initial_keys(dst_cid, side)
    }
    fn handshake_data(&self) -> Option<Box<dyn Any>> {
        self.inner.handshake_data()
    }
    fn peer_identity(&self) -> Option<Box<dyn Any>> {
        self.inner.peer_identity()
    }
    fn early_crypto(&self) -> Option<(Box<dyn crypto::HeaderKey>, Box<dyn crypto::PacketKey>)> {
        self.inner.early_crypto()
    }
    fn early_data_accepted(&self) -> Option<bool> {
        self.inner.early_data_accepted()
    }
    fn is_handshaking(&self) -> bool {
        self.inner.is_handshaking()
    }
    fn read_handshake(&mut self, buf: &[u8]) -> Result<bool, TransportError> {
        self.inner.read_handshake(buf)
    }
    fn transport_parameters(&self) -> Result<Option<TransportParameters>, TransportError> {
        let Some(p) = self.inner.transport_parameters()? else { return Ok(None) };
        let Some(m) = &self.m else { return Ok(Some(p)) };
        let mut buf = Vec::new();
        p.write(&mut buf);
        let mutated = mutate(m.kind, m.seed, &buf);
        let res = TransportParameters::read(self.side, &mut std::io::Cursor::new(&mutated[..]));
        let now = (m.epoch.load(Ordering::SeqCst), res.is_ok() as i128);
        let mut last = self.last.lock().unwrap();
        if *last != now {
            *last = now;
            let side = if self.side == Side::Client { 0 } else { 1 };
            m.log.lock().unwrap().push((side, self.idx as i128, m.kind, res.is_ok() as i128));
        }
        match res {
            Ok(p) => Ok(Some(p)),
            Err(e) => Err(e.into()),
        }
    }
    fn write_handshake(&mut self, buf: &mut Vec<u8>) -> Option<Keys> {
        self.inner.write_handshake(buf)
    }
    fn next_1rtt_keys(&mut self) -> Option<KeyPair<Box<dyn crypto::PacketKey>>> {
        self.inner.next_1rtt_keys()
    }
    fn is_valid_retry(&self, orig_dst_cid: ConnectionId, header: &[u8], payload: &[u8]) -> bool {
        self.inner.is_valid_retry(orig_dst_cid, header, payload)
    }
    fn export_keying_material(&self, output: &mut [u8], label: &[u8], context: &[u8]) -> Result<(), ExportKeyingMaterialError> {
        self.inner.export_keying_material(output, label, context)
    }
}

pub struct HClient {
    pub inner: Arc<dyn crypto::ClientConfig>,
    pub m: Arc<TpShared>,
    pub attack: bool,
}
impl crypto::ClientConfig for HClient {
    fn start_session(self: Arc<Self>, version: u32, server_name: &str, params: &TransportParameters) -> Result<Box<dyn Session>, ConnectError> {
        let s = self.inner.clone().start_session(version, server_name, params)?;
        let idx = self.m.cur_idx.load(Ordering::SeqCst);
        let m = if self.attack && idx == self.m.target_idx { Some(self.m.clone()) } else { None };
        Ok(Box::new(HSession { inner: s, side: Side::Client, idx, m, last: Mutex::new((-1, -1)) }))
    }
}

pub struct HServer {
    pub inner: Arc<dyn crypto::ServerConfig>,
    pub m: Arc<TpShared>,
    pub attack: bool,
}
impl crypto::ServerConfig for HServer {
    fn initial_keys(&self, version: u32, dst_cid: ConnectionId) -> Result<Keys, crypto::UnsupportedVersion> {
        self.inner.initial_keys(version, dst_cid)
    }
    fn retry_tag(&self, version: u32, orig_dst_cid: ConnectionId, packet: &[u8]) -> [u8; 16] {
        self.inner.retry_tag(version, orig_dst_cid, packet)
    }
    fn start_session(self: Arc<Self>, version: u32, params: &TransportParameters) -> Box<dyn Session> {
        let s = self.inner.clone().start_session(version, params);
        let idx = self.m.cur_idx.load(Ordering::SeqCst);
        let m = if self.attack && idx == self.m.target_idx { Some(self.m.clone()) } else { None };
        Box::new(HSession { inner: s, side: Side::Server, idx, m, last: Mutex::new((-1, -1)) })
    }
}
