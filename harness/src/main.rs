//! qvh — correspondence harness driver for /verif.
//!
//! `qvh comp <name>`: reads cases from stdin (one op per line as space-separated integers, a
//! line `#` ends a case), runs each case against the real component through the cfg-guarded
//! hooks in quinn-proto and prints one observation line per op followed by `#`.
//! A panic inside a case is an outcome: the case prints `PANIC <message>` then `#`.
mod asyncsim;
mod hostile_tp;
mod sim;
use std::io::{self, BufRead, Write};
use std::panic;

fn run_comp(name: &str, mode: u8) {
    let stdin = io::stdin();
    let stdout = io::stdout();
    let mut out = io::BufWriter::new(stdout.lock());
    let mut ops: Vec<Vec<i128>> = Vec::new();
    if std::env::var("QVH_PANIC_TRACE").is_err() {
        panic::set_hook(Box::new(|_| {}));
    }
    for line in stdin.lock().lines() {
        let line = line.unwrap();
        let t = line.trim();
        if t == "#" {
            let name2 = name.to_string();
            let ops2 = std::mem::take(&mut ops);
            let res = panic::catch_unwind(move || {
                match mode {
                    1 => quinn_udp::verif_hooks::run(&name2, &ops2),
                    2 => Some(sim::run_case(&ops2)),
                    3 => Some(asyncsim::run_case(&ops2)),
                    _ => quinn_proto::verif_hooks::run(&name2, &ops2),
                }
            });
            match res {
                Ok(Some(outs)) => {
                    for o in outs {
                        let s: Vec<String> = o.iter().map(|x| x.to_string()).collect();
                        writeln!(out, "{}", s.join(" ")).unwrap();
                    }
                }
                Ok(None) => {
                    writeln!(out, "UNKNOWN-COMPONENT {}", name).unwrap();
                }
                Err(e) => {
                    let msg = if let Some(s) = e.downcast_ref::<&str>() {
                        s.to_string()
                    } else if let Some(s) = e.downcast_ref::<String>() {
                        s.clone()
                    } else {
                        "?".to_string()
                    };
                    writeln!(out, "PANIC {}", msg.replace('\n', " ")).unwrap();
                }
            }
            writeln!(out, "#").unwrap();
        } else if !t.is_empty() {
            ops.push(t.split_whitespace().map(|x| x.parse::<i128>().expect("int")).collect());
        }
    }
    out.flush().unwrap();
}

fn main() {
    if std::env::var("QVH_LOG").is_ok() {
        // debugging aid only: quinn's own trace output on stderr
        let _ = tracing_subscriber::fmt()
            .with_env_filter(tracing_subscriber::EnvFilter::new(std::env::var("QVH_LOG").unwrap()))
            .with_writer(std::io::stderr)
            .without_time()
            .try_init();
    }
    let args: Vec<String> = std::env::args().collect();
    match args.get(1).map(|s| s.as_str()) {
        Some("comp") => run_comp(&args[2], 0),
        Some("udp") => run_comp(&args[2], 1),
        Some("sim") => run_comp(&args[2], 2),
        Some("async") => run_comp(&args[2], 3),
        Some("gencert") => {
            // one-off: writes an Ed25519 self-signed certificate (deterministic signature sizes)
            let dir = &args[2];
            let kp = rcgen::KeyPair::generate_for(&rcgen::PKCS_ED25519).unwrap();
            let params = rcgen::CertificateParams::new(vec!["localhost".to_string()]).unwrap();
            let cert = params.self_signed(&kp).unwrap();
            std::fs::write(format!("{}/cert.der", dir), cert.der().as_ref()).unwrap();
            std::fs::write(format!("{}/key.der", dir), kp.serialize_der()).unwrap();
        }
        Some("constants") => {
            for (k, v) in quinn_proto::verif_hooks::constants::constants() {
                println!("{} {}", k, v);
            }
            for (k, v) in quinn_udp::verif_hooks::constants() {
                println!("{} {}", k, v);
            }
        }
        _ => {
            eprintln!("usage: qvh comp <name>");
            std::process::exit(2);
        }
    }
}
