#!/bin/sh
# Build the framework from files on disk only (offline): harness against /repo, full Coq build.
set -e
cd "$(dirname "$0")"
export CARGO_NET_OFFLINE=true
python3 - <<'PY'
import sys
sys.path.insert(0, ".")
from lib import qv, constants
ok, binp, log = qv.build_harness()
if not ok:
    print(log[-3000:]); sys.exit(1)
r = constants.regenerate(binp)
if not r.get("ok"):
    print(r); sys.exit(1)
ok, out = qv.coq_make([])
print(out[-3000:])
if not ok:
    sys.exit(1)
# extracted trace monitors (OCaml)
qv.build_mondriver()
sys.exit(0)
PY
